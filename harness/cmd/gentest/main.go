package main

import (
	"fmt"
	"os"
	"strings"

	"github.com/markkurossi/mpc/compiler"
	"github.com/markkurossi/mpc/compiler/utils"

	"verifharness/internal/mpclgen"
	"verifharness/internal/vrt"
)

func main() {
	os.Setenv("MPCLDIR", "/repo")
	var n int = 300
	want := ""
	if len(os.Args) > 1 {
		want = os.Args[1]
	}
	shown := 0
	counts := map[string]int{}
	for seed := uint64(1); seed <= uint64(n); seed++ {
		var p *mpclgen.Program
		func() {
			defer func() {
				if r := recover(); r != nil {
					fmt.Println("GENERATOR PANIC seed", seed, r)
				}
			}()
			p = mpclgen.Generate(vrt.NewRng(seed), mpclgen.Config{Arrays: true, Structs: true, Funcs: true, Loops: true, Division: true, Mult: true})
		}()
		if p == nil {
			continue
		}
		_, _, err := compiler.New(utils.NewParams()).Compile(p.Src, nil)
		if err != nil {
			e := err.Error()
			if i := strings.LastIndex(e, ": "); i > 0 {
				e = e[i+2:]
			}
			counts[e]++
		} else {
			counts["OK"]++
		}
		if err != nil && want != "" && strings.Contains(err.Error(), want) && shown < 3 {
			fmt.Println("=== seed", seed, err)
			lines := strings.Split(p.Src, "\n")
			for i, l := range lines {
				fmt.Printf("%3d %s\n", i+1, l)
			}
			shown++
		}
	}
	for k, v := range counts {
		fmt.Printf("%5d %s\n", v, k)
	}
}
