package main

import (
	"bufio"
	"fmt"
	"os"
	"strings"

	"github.com/markkurossi/mpc/compiler"
	"github.com/markkurossi/mpc/compiler/utils"
)

// reads programs separated by lines "----" from stdin, prints compile result
func main() {
	os.Setenv("MPCLDIR", "/repo")
	sc := bufio.NewScanner(os.Stdin)
	sc.Buffer(make([]byte, 1<<20), 1<<24)
	var cur []string
	flush := func() {
		if len(cur) == 0 {
			return
		}
		src := strings.Join(cur, "\n") + "\n"
		cur = nil
		func() {
			defer func() {
				if r := recover(); r != nil {
					fmt.Printf("PANIC %v :: %s\n", r, strings.ReplaceAll(src, "\n", " | "))
				}
			}()
			c, _, err := compiler.New(utils.NewParams()).Compile(src, nil)
			if err != nil {
				e := err.Error()
				if i := strings.LastIndex(e, "\n"); i > 0 {
					e = e[i+1:]
				}
				fmt.Printf("ERR  %-60s :: %s\n", e, strings.ReplaceAll(src, "\n", " | "))
			} else {
				fmt.Printf("OK   gates=%d :: %s\n", c.NumGates, strings.ReplaceAll(src, "\n", " | "))
			}
		}()
	}
	for sc.Scan() {
		if sc.Text() == "----" {
			flush()
		} else {
			cur = append(cur, sc.Text())
		}
	}
	flush()
}
