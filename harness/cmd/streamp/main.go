package main

import (
	"fmt"
	"math/big"
	"os"
	"strings"

	"github.com/markkurossi/mpc/circuit"
	"github.com/markkurossi/mpc/compiler"
	"github.com/markkurossi/mpc/compiler/utils"
	"github.com/markkurossi/mpc/env"
	"github.com/markkurossi/mpc/ot"
	"github.com/markkurossi/mpc/p2p"
)

// streamp <file> <garbler inputs comma separated> <evaluator inputs comma separated>
func main() {
	os.Setenv("MPCLDIR", "/repo")
	src, _ := os.ReadFile(os.Args[1])
	gIn := strings.Split(os.Args[2], ",")
	eIn := strings.Split(os.Args[3], ",")
	gs, _ := circuit.InputSizes(gIn)
	es, _ := circuit.InputSizes(eIn)
	params := utils.NewParams()
	if os.Getenv("SSA") != "" {
		params.SSAOut = os.Stdout
	}
	c, _, err := compiler.New(params).Compile(string(src), [][]int{gs, es})
	if err != nil {
		fmt.Println("ERR", err)
		return
	}
	params.SSAOut = nil
	x, _ := c.Inputs[0].Parse(gIn)
	y, _ := c.Inputs[1].Parse(eIn)
	var args []*big.Int
	for i, in := range []*big.Int{x, y} {
		io := c.Inputs[i]
		if len(io.Compound) == 0 {
			args = append(args, in)
			continue
		}
		off := 0
		for _, m := range io.Compound {
			v := new(big.Int).Rsh(in, uint(off))
			v.And(v, new(big.Int).Sub(new(big.Int).Lsh(big.NewInt(1), uint(m.Type.Bits)), big.NewInt(1)))
			args = append(args, v)
			off += int(m.Type.Bits)
		}
	}
	out, err := c.Compute(args)
	fmt.Println("whole :", out, err)
	a, b := p2p.Pipe()
	done := make(chan bool)
	go func() {
		b.SendInputSizes(es)
		b.Flush()
		_, res, err := circuit.StreamEvaluator(b, ot.NewCO(nil2()), eIn, nil, false)
		fmt.Println("eval  :", res, err)
		done <- true
	}()
	peer, _ := a.ReceiveInputSizes()
	p2 := utils.NewParams()
	p2.Config = &env.Config{}
	_, res, err := compiler.New(p2).Stream(a, ot.NewCO(nil2()), "{data}", strings.NewReader(string(src)), gIn, [][]int{gs, peer})
	fmt.Println("stream:", res, err)
	<-done
}

func nil2() *randReader { return &randReader{} }

type randReader struct{}

func (randReader) Read(p []byte) (int, error) {
	f, _ := os.Open("/dev/urandom")
	defer f.Close()
	return f.Read(p)
}
