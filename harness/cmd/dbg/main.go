package main

import (
	"fmt"
	"verifharness/internal/mpclgen"
	"verifharness/internal/vrt"
)

func main() {
	p := mpclgen.Generate(vrt.NewRng(59), mpclgen.Config{Arrays: true, Structs: true, Funcs: true, Loops: true, Division: true, Mult: true})
	fmt.Println(p.Src)
}
