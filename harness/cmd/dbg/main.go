package main

import (
	"fmt"
	"math/big"
	"os"

	"github.com/markkurossi/mpc/compiler"
	"github.com/markkurossi/mpc/compiler/utils"
)

func main() {
	os.Setenv("MPCLDIR", "/repo")
	params := utils.NewParams()
	cc := compiler.New(params)
	src, _ := os.ReadFile(os.Args[1])
	for i := 0; i < 2; i++ {
		c, _, err := cc.Compile(string(src), nil)
		if err != nil {
			fmt.Println(err)
			continue
		}
		out, err := c.Compute([]*big.Int{big.NewInt(0xabcd), big.NewInt(0)})
		fmt.Printf("compile %d: gates=%d out=%x err=%v\n", i, c.NumGates, out, err)
	}
}
