package main

import (
	"fmt"
	"math/big"
	"os"

	"github.com/markkurossi/mpc/compiler"
	"github.com/markkurossi/mpc/compiler/utils"
)

// evalp <file.mpcl> <arg0> <arg1> ... : compiles and computes (scalar args)
func main() {
	os.Setenv("MPCLDIR", "/repo")
	src, _ := os.ReadFile(os.Args[1])
	params := utils.NewParams()
	if os.Getenv("SSA") != "" {
		params.SSAOut = os.Stdout
	}
	c, _, err := compiler.New(params).Compile(string(src), nil)
	if err != nil {
		fmt.Println("ERR", err)
		return
	}
	var in []*big.Int
	for _, a := range os.Args[2:] {
		v, _ := new(big.Int).SetString(a, 0)
		in = append(in, v)
	}
	out, err := c.Compute(in)
	fmt.Println(c.Inputs, "->", c.Outputs, out, err)
}
