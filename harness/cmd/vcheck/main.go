// vcheck is the driver, worker and replay tool of the verification harness.
package main

import (
	"encoding/json"
	"flag"
	"fmt"
	"os"

	_ "verifharness/internal/props"
	"verifharness/internal/vrt"
)

func usage() {
	fmt.Fprintf(os.Stderr, "usage: vcheck run <ID> [--tier quick|thorough]\n       vcheck replay <file> | vcheck case <ID> <tier> <seed> <idx>\n       vcheck list\n")
	os.Exit(64)
}

func main() {
	if len(os.Args) < 2 {
		usage()
	}
	switch os.Args[1] {
	case "list":
		for _, id := range vrt.All() {
			p := vrt.Lookup(id)
			fmt.Printf("%s quick=%d thorough=%d\n", id, p.NumCases("quick"), p.NumCases("thorough"))
		}
	case "run":
		if len(os.Args) < 3 {
			usage()
		}
		p := vrt.Lookup(os.Args[2])
		if p == nil {
			fmt.Fprintf(os.Stderr, "unknown property %s\n", os.Args[2])
			os.Exit(64)
		}
		fs := flag.NewFlagSet("run", flag.ExitOnError)
		tier := fs.String("tier", "quick", "")
		fs.Parse(os.Args[3:])
		if *tier != "quick" && *tier != "thorough" {
			usage()
		}
		os.Exit(vrt.Drive(p, *tier))
	case "worker":
		p := vrt.Lookup(os.Args[2])
		fs := flag.NewFlagSet("worker", flag.ExitOnError)
		tier := fs.String("tier", "quick", "")
		seed := fs.Uint64("seed", 1, "")
		shard := fs.Int("shard", 0, "")
		of := fs.Int("of", 1, "")
		after := fs.Int("after", -1, "")
		out := fs.String("out", "", "")
		fs.Parse(os.Args[3:])
		os.Exit(vrt.WorkerMain(p, *tier, *seed, *shard, *of, *after, *out))
	case "aux":
		if len(os.Args) < 3 || vrt.AuxCmds[os.Args[2]] == nil {
			usage()
		}
		os.Exit(vrt.AuxCmds[os.Args[2]](os.Args[3:]))
	case "replay":
		if len(os.Args) < 3 {
			usage()
		}
		b, err := os.ReadFile(os.Args[2])
		if err != nil {
			fmt.Fprintln(os.Stderr, err)
			os.Exit(64)
		}
		var r struct {
			Property string `json:"property"`
			Tier     string `json:"tier"`
			Seed     uint64 `json:"seed"`
			Idx      int    `json:"idx"`
		}
		json.Unmarshal(b, &r)
		one(r.Property, r.Tier, r.Seed, r.Idx)
	case "case":
		if len(os.Args) < 6 {
			usage()
		}
		var seed uint64
		var idx int
		fmt.Sscan(os.Args[4], &seed)
		fmt.Sscan(os.Args[5], &idx)
		one(os.Args[2], os.Args[3], seed, idx)
	default:
		usage()
	}
}

func one(id, tier string, seed uint64, idx int) {
	p := vrt.Lookup(id)
	if p == nil || idx < 0 {
		fmt.Fprintf(os.Stderr, "cannot replay %s case %d (aggregate finding)\n", id, idx)
		os.Exit(64)
	}
	c := vrt.RunOne(p, tier, seed, idx)
	c.Keys = nil
	b, _ := json.MarshalIndent(c, "", " ")
	fmt.Println(string(b))
	if len(c.Violations) > 0 {
		os.Exit(1)
	}
}
