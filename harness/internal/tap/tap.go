// Package tap is an in-memory duplex byte transport owned by the harness. It
// is handed to p2p.NewConn in place of a socket and records, fragments,
// delays, corrupts and watches the byte streams.
package tap

import (
	"errors"
	"io"
	"runtime"
	"sync"
	"sync/atomic"
	"time"

	"verifharness/internal/vrt"
)

// Errors delivered to the parties.
var (
	ErrStalled  = errors.New("tap: session stalled and was aborted")
	ErrInjected = errors.New("tap: injected transport error")
	ErrClosed   = errors.New("tap: closed")
)

// Fault replaces bytes of one direction at a stream offset.
type Fault struct {
	Off  int64
	Xor  []byte // XORed over the stream starting at Off (non-zero bytes change data)
	hits int
}

type dir struct {
	mu       sync.Mutex
	cond     *sync.Cond
	q        []byte
	closed   bool  // writer side closed: readers drain then EOF
	err      error // abort: both sides fail at once
	written  int64
	read     int64
	record   bool
	trans    []byte
	faults   []*Fault
	faultHit int
	starts   []int64 // stream offset at which each Write call began (capped)
}

// Link is a pair of endpoints.
type Link struct {
	A, B *End
	d    [2]*dir // d[0]: A→B, d[1]: B→A

	waiting  atomic.Int32
	writing  atomic.Int32
	activity atomic.Int64
	stalled  atomic.Bool
	stopMon  chan struct{}
	monOnce  sync.Once
}

// Frag modes for reads.
const (
	FragAll = iota
	FragOne
	FragSmall
	FragRandom
	FragStraddle
)

// End is one endpoint (io.ReadWriteCloser).
type End struct {
	l        *Link
	in, out  *dir
	rr, wr   *vrt.Rng
	Frag     int
	DelayPct int // percent of calls that yield/sleep briefly
	LazyCopy bool
	// WriteErrAfter / ReadErrAfter: fail the n-th call (1-based; 0 = never).
	WriteErrAfter, ReadErrAfter int
	nw, nr                      int
	closed                      atomic.Bool
}

// NewLink creates a link; rng drives fragmentation and delays.
func NewLink(rng *vrt.Rng, record bool) *Link {
	l := &Link{stopMon: make(chan struct{})}
	for i := range l.d {
		d := &dir{record: record}
		d.cond = sync.NewCond(&d.mu)
		l.d[i] = d
	}
	l.A = &End{l: l, in: l.d[1], out: l.d[0], rr: rng.Fork(), wr: rng.Fork()}
	l.B = &End{l: l, in: l.d[0], out: l.d[1], rr: rng.Fork(), wr: rng.Fork()}
	return l
}

// SetFrag sets the read fragmentation of both ends.
func (l *Link) SetFrag(mode, delayPct int, lazy bool) {
	for _, e := range []*End{l.A, l.B} {
		e.Frag, e.DelayPct, e.LazyCopy = mode, delayPct, lazy
	}
}

// AddFault installs a fault on direction d (0: A→B, 1: B→A).
func (l *Link) AddFault(d int, f Fault) {
	l.d[d].mu.Lock()
	l.d[d].faults = append(l.d[d].faults, &f)
	l.d[d].mu.Unlock()
}

// FaultHits tells how many fault bytes were applied on direction d.
func (l *Link) FaultHits(d int) int {
	l.d[d].mu.Lock()
	defer l.d[d].mu.Unlock()
	return l.d[d].faultHit
}

// WriteStarts returns the stream offsets at which the writer's Write calls on
// direction d began (one per flush of a p2p.Conn): message framing sits there.
func (l *Link) WriteStarts(d int) []int64 {
	l.d[d].mu.Lock()
	defer l.d[d].mu.Unlock()
	return append([]int64(nil), l.d[d].starts...)
}

// Transcript returns everything written on direction d (before faults).
func (l *Link) Transcript(d int) []byte {
	l.d[d].mu.Lock()
	defer l.d[d].mu.Unlock()
	return append([]byte(nil), l.d[d].trans...)
}

// Written / Read return the byte counters of direction d.
func (l *Link) Written(d int) int64 {
	l.d[d].mu.Lock()
	defer l.d[d].mu.Unlock()
	return l.d[d].written
}

// Delivered returns how many bytes of direction d readers consumed.
func (l *Link) Delivered(d int) int64 {
	l.d[d].mu.Lock()
	defer l.d[d].mu.Unlock()
	return l.d[d].read
}

// Abort fails both directions at once.
func (l *Link) Abort(err error) {
	for _, d := range l.d {
		d.mu.Lock()
		if d.err == nil {
			d.err = err
		}
		d.cond.Broadcast()
		d.mu.Unlock()
	}
}

// Stalled tells whether the stall detector fired.
func (l *Link) Stalled() bool { return l.stalled.Load() }

// Watch starts the stall detector: when every open endpoint's reader is
// parked on an empty queue, no Write is in progress and nothing moved for
// `window`, the link is aborted with ErrStalled. need is the number of
// parked readers that constitutes a stall (2 for a two-party session).
func (l *Link) Watch(window time.Duration, need int32) {
	go func() {
		tick := time.NewTicker(window / 10)
		defer tick.Stop()
		var since time.Time
		last := int64(-1)
		for {
			select {
			case <-l.stopMon:
				return
			case <-tick.C:
			}
			act := l.activity.Load()
			if l.waiting.Load() >= need && l.writing.Load() == 0 && act == last {
				if since.IsZero() {
					since = time.Now()
				} else if time.Since(since) >= window {
					l.stalled.Store(true)
					l.Abort(ErrStalled)
					return
				}
			} else {
				since = time.Time{}
				last = act
			}
		}
	}()
}

// Stop ends the stall detector.
func (l *Link) Stop() { l.monOnce.Do(func() { close(l.stopMon) }) }

// slowBudget is the number of bytes per direction that are delivered in the
// byte-at-a-time / delayed modes; bulk data beyond it moves in random
// fragments without sleeps (a multi-megabyte streaming session would
// otherwise take minutes of idle wall-clock time).
const slowBudget = 48 * 1024

func (e *End) pause(r *vrt.Rng) {
	if e.DelayPct > 0 && r.Intn(100) < e.DelayPct {
		if r.Intn(4) == 0 {
			time.Sleep(time.Duration(r.Intn(200)) * time.Microsecond)
		} else {
			runtime.Gosched()
		}
	}
}

// Write accepts p completely.
func (e *End) Write(p []byte) (int, error) {
	e.l.writing.Add(1)
	defer e.l.writing.Add(-1)
	e.nw++
	if e.WriteErrAfter > 0 && e.nw >= e.WriteErrAfter {
		return 0, ErrInjected
	}
	slow := e.out.written < slowBudget // racy read of a counter: only a pacing hint
	if slow {
		e.pause(e.wr)
	}
	if slow && e.LazyCopy && e.wr.Intn(3) == 0 {
		// hold the caller's slice for a while before copying out of it: a
		// buffer reused too early becomes a content mismatch
		time.Sleep(time.Duration(20+e.wr.Intn(300)) * time.Microsecond)
	}
	d := e.out
	d.mu.Lock()
	defer d.mu.Unlock()
	if d.err != nil {
		return 0, d.err
	}
	if d.closed || e.closed.Load() {
		return 0, ErrClosed
	}
	if d.record {
		d.trans = append(d.trans, p...)
	}
	start := len(d.q)
	d.q = append(d.q, p...)
	for _, f := range d.faults {
		for i, x := range f.Xor {
			pos := f.Off + int64(i) - d.written
			if pos >= 0 && pos < int64(len(p)) {
				d.q[start+int(pos)] ^= x
				if x != 0 {
					d.faultHit++
				}
			}
		}
	}
	if len(d.starts) < 4096 && len(p) > 0 {
		d.starts = append(d.starts, d.written)
	}
	d.written += int64(len(p))
	e.l.activity.Add(1)
	d.cond.Broadcast()
	return len(p), nil
}

// Read returns a fragment of what is queued, blocking while nothing is.
func (e *End) Read(p []byte) (int, error) {
	if len(p) == 0 {
		return 0, nil
	}
	e.nr++
	if e.ReadErrAfter > 0 && e.nr >= e.ReadErrAfter {
		return 0, ErrInjected
	}
	d := e.in
	if d.read < slowBudget {
		e.pause(e.rr)
	}
	d.mu.Lock()
	defer d.mu.Unlock()
	parked := false
	for len(d.q) == 0 {
		if d.err != nil {
			if parked {
				e.l.waiting.Add(-1)
			}
			return 0, d.err
		}
		if d.closed || e.closed.Load() {
			if parked {
				e.l.waiting.Add(-1)
			}
			return 0, io.EOF
		}
		if !parked {
			parked = true
			e.l.waiting.Add(1)
		}
		d.cond.Wait()
	}
	if parked {
		e.l.waiting.Add(-1)
	}
	n := len(d.q)
	if n > len(p) {
		n = len(p)
	}
	frag := e.Frag
	if d.read >= slowBudget && (frag == FragOne || frag == FragSmall) {
		frag = FragRandom
	}
	switch frag {
	case FragOne:
		n = 1
	case FragSmall:
		if k := 1 + e.rr.Intn(16); k < n {
			n = k
		}
	case FragRandom:
		n = 1 + e.rr.Intn(n)
	case FragStraddle:
		ks := []int{1, 3, 4095, 4097, 65535, 65537, 16, 17}
		if k := ks[e.rr.Intn(len(ks))]; k < n {
			n = k
		}
	}
	copy(p, d.q[:n])
	d.q = d.q[n:]
	if len(d.q) == 0 {
		d.q = nil
	}
	d.read += int64(n)
	e.l.activity.Add(1)
	return n, nil
}

// Close half-closes: the peer drains what was written and then sees EOF;
// this endpoint's own reads end.
func (e *End) Close() error {
	if e.closed.Swap(true) {
		return nil
	}
	e.out.mu.Lock()
	e.out.closed = true
	e.out.cond.Broadcast()
	e.out.mu.Unlock()
	e.in.mu.Lock()
	e.in.cond.Broadcast()
	e.in.mu.Unlock()
	return nil
}
