// Package refc is the harness's own, independent model of boolean circuits:
// a bit-sliced gate-by-gate evaluator, a well-formedness checker and a random
// circuit generator. It shares no code with circuit.Compute.
package refc

import (
	"fmt"
	"math/big"

	"github.com/markkurossi/mpc/circuit"
	"github.com/markkurossi/mpc/types"

	"verifharness/internal/vrt"
)

// Eval64 evaluates 64 input assignments at once. in[w] holds, for input wire
// w, bit k = value of that wire in assignment k. Returns the full wire vector.
func Eval64(c *circuit.Circuit, in []uint64) ([]uint64, error) {
	nin := c.Inputs.Size()
	if len(in) != nin {
		return nil, fmt.Errorf("refc: %d input wires given, circuit has %d", len(in), nin)
	}
	w := make([]uint64, c.NumWires)
	copy(w, in)
	for i := range c.Gates {
		g := &c.Gates[i]
		var r uint64
		switch g.Op {
		case circuit.XOR:
			r = w[g.Input0] ^ w[g.Input1]
		case circuit.XNOR:
			r = ^(w[g.Input0] ^ w[g.Input1])
		case circuit.AND:
			r = w[g.Input0] & w[g.Input1]
		case circuit.OR:
			r = w[g.Input0] | w[g.Input1]
		case circuit.INV:
			r = ^w[g.Input0]
		default:
			return nil, fmt.Errorf("refc: gate %d has unknown op %d", i, g.Op)
		}
		w[g.Output] = r
	}
	return w, nil
}

// Slice packs up to 64 flat input assignments (each a big.Int over all
// input wires, bit i = wire i) into the bit-sliced form.
func Slice(nin int, vecs []*big.Int) []uint64 {
	in := make([]uint64, nin)
	for k, v := range vecs {
		for i := 0; i < nin; i++ {
			if v.Bit(i) == 1 {
				in[i] |= 1 << uint(k)
			}
		}
	}
	return in
}

// Outputs extracts the flat output value (bit i = i-th output wire) of
// assignment k from a wire vector.
func Outputs(c *circuit.Circuit, w []uint64, k int) *big.Int {
	n := c.Outputs.Size()
	base := c.NumWires - n
	r := new(big.Int)
	for i := 0; i < n; i++ {
		if w[base+i]>>uint(k)&1 == 1 {
			r.SetBit(r, i, 1)
		}
	}
	return r
}

// EvalFlat evaluates the circuit on flat assignments and returns the flat
// outputs, 64 at a time.
func EvalFlat(c *circuit.Circuit, vecs []*big.Int) ([]*big.Int, error) {
	out := make([]*big.Int, len(vecs))
	nin := c.Inputs.Size()
	for off := 0; off < len(vecs); off += 64 {
		end := off + 64
		if end > len(vecs) {
			end = len(vecs)
		}
		w, err := Eval64(c, Slice(nin, vecs[off:end]))
		if err != nil {
			return nil, err
		}
		for k := off; k < end; k++ {
			out[k] = Outputs(c, w, k-off)
		}
	}
	return out, nil
}

// Flatten concatenates per-argument values into a flat assignment using the
// circuit's declared input widths (argument i occupies the next Bits wires).
func Flatten(io circuit.IO, vals []*big.Int) *big.Int {
	r := new(big.Int)
	off := 0
	for i, a := range io {
		for b := 0; b < int(a.Type.Bits); b++ {
			if i < len(vals) && vals[i].Bit(b) == 1 {
				r.SetBit(r, off+b, 1)
			}
		}
		off += int(a.Type.Bits)
	}
	return r
}

// SplitOut splits a flat output per declared output.
func SplitOut(io circuit.IO, flat *big.Int) []*big.Int {
	var res []*big.Int
	off := 0
	for _, a := range io {
		r := new(big.Int)
		for b := 0; b < int(a.Type.Bits); b++ {
			if flat.Bit(off+b) == 1 {
				r.SetBit(r, b, 1)
			}
		}
		off += int(a.Type.Bits)
		res = append(res, r)
	}
	return res
}

// WellFormed checks: counts agree, every gate input is an input wire or the
// output of an earlier gate, no wire is assigned twice, every wire is assigned.
func WellFormed(c *circuit.Circuit) error {
	if c.NumGates != len(c.Gates) {
		return fmt.Errorf("NumGates=%d but %d gates", c.NumGates, len(c.Gates))
	}
	nin := c.Inputs.Size()
	if nin > c.NumWires || c.Outputs.Size() > c.NumWires {
		return fmt.Errorf("inputs %d / outputs %d exceed wires %d", nin, c.Outputs.Size(), c.NumWires)
	}
	def := make([]bool, c.NumWires)
	for i := 0; i < nin; i++ {
		def[i] = true
	}
	for i, g := range c.Gates {
		if int(g.Input0) >= c.NumWires || !def[g.Input0] {
			return fmt.Errorf("gate %d input0 w%d undefined", i, g.Input0)
		}
		if g.Op != circuit.INV {
			if int(g.Input1) >= c.NumWires || !def[g.Input1] {
				return fmt.Errorf("gate %d input1 w%d undefined", i, g.Input1)
			}
		}
		if g.Op > circuit.INV {
			return fmt.Errorf("gate %d bad op %d", i, g.Op)
		}
		if int(g.Output) >= c.NumWires {
			return fmt.Errorf("gate %d output w%d out of range", i, g.Output)
		}
		if def[g.Output] {
			return fmt.Errorf("gate %d output w%d assigned twice", i, g.Output)
		}
		def[g.Output] = true
	}
	for w, d := range def {
		if !d {
			return fmt.Errorf("wire w%d never assigned", w)
		}
	}
	return nil
}

// Shape controls the random circuit generator.
type Shape struct {
	Args    []int // input widths per argument
	Gates   int
	Outs    []int // output widths per declared output
	Ops     []circuit.Operation
	Kind    int // 0 random dag, 1 chain, 2 wide layers, 3 heavy fan-out, 4 hot input wires (every input wire feeds gates all over the circuit)
	SameP   int // percent of binary gates using the same wire twice
	Named   bool
	UintOut bool
}

// UintInfo is the type of a uint argument of the given width.
func UintInfo(bits int) types.Info { return uintInfo(bits) }

func uintInfo(bits int) types.Info {
	return types.Info{Type: types.TUint, IsConcrete: true, Bits: types.Size(bits), MinBits: types.Size(bits)}
}

// Gen builds a random well-formed circuit: inputs occupy wires [0,nin), every
// gate writes a fresh wire, and the last Σouts wires are the outputs.
func Gen(r *vrt.Rng, s Shape) *circuit.Circuit {
	nin := 0
	c := &circuit.Circuit{}
	for i, w := range s.Args {
		a := circuit.IOArg{Type: uintInfo(w)}
		if s.Named {
			a.Name = fmt.Sprintf("a%d", i)
		}
		c.Inputs = append(c.Inputs, a)
		nin += w
	}
	nout := 0
	for i, w := range s.Outs {
		a := circuit.IOArg{Type: uintInfo(w)}
		if s.Named {
			a.Name = fmt.Sprintf("r%d", i)
		}
		c.Outputs = append(c.Outputs, a)
		nout += w
	}
	ng := s.Gates
	if ng < nout {
		ng = nout
	}
	ops := s.Ops
	if len(ops) == 0 {
		ops = []circuit.Operation{circuit.XOR, circuit.XNOR, circuit.AND, circuit.OR, circuit.INV}
	}
	next := nin
	hub := 0
	for i := 0; i < ng; i++ {
		op := vrt.Pick(r, ops)
		pick := func() circuit.Wire {
			switch s.Kind {
			case 1: // chain: prefer the most recent wires
				lo := next - 3
				if lo < 0 {
					lo = 0
				}
				return circuit.Wire(r.Range(lo, next-1))
			case 2: // layers: prefer wires about one layer back
				width := nin
				if width < 4 {
					width = 4
				}
				lo := next - 2*width
				if lo < 0 {
					lo = 0
				}
				return circuit.Wire(r.Range(lo, next-1))
			case 3: // fan-out: half of all inputs come from a hub wire
				if r.Bool() {
					return circuit.Wire(hub)
				}
			case 4: // hot inputs: half of all gate inputs are circuit input wires
				if r.Bool() {
					return circuit.Wire(r.Intn(nin))
				}
			}
			return circuit.Wire(r.Intn(next))
		}
		g := circuit.Gate{Op: op, Input0: pick(), Output: circuit.Wire(next)}
		if op != circuit.INV {
			if r.Intn(100) < s.SameP {
				g.Input1 = g.Input0
			} else {
				g.Input1 = pick()
			}
		}
		if s.Kind == 3 && r.Intn(16) == 0 {
			hub = next
		}
		// the last nout gates feed on something recent so that outputs depend
		// on the body of the circuit
		c.Gates = append(c.Gates, g)
		c.Stats[op]++
		next++
	}
	c.NumGates = len(c.Gates)
	c.NumWires = next
	return c
}

// Depends reports whether at least one non-free gate (AND/OR/INV) lies on a
// path to an output wire.
func Depends(c *circuit.Circuit) bool {
	need := make([]bool, c.NumWires)
	for i := c.NumWires - c.Outputs.Size(); i < c.NumWires; i++ {
		need[i] = true
	}
	for i := len(c.Gates) - 1; i >= 0; i-- {
		g := c.Gates[i]
		if !need[g.Output] {
			continue
		}
		if g.Op == circuit.AND || g.Op == circuit.OR || g.Op == circuit.INV {
			return true
		}
		need[g.Input0] = true
		if g.Op != circuit.INV {
			need[g.Input1] = true
		}
	}
	return false
}

// RandShape draws a generator shape.
func RandShape(r *vrt.Rng, nargs, maxGates int) Shape {
	s := Shape{Kind: r.Intn(4), Named: r.Bool()}
	widths := []int{1, 1, 2, 3, 4, 5, 7, 8}
	for i := 0; i < nargs; i++ {
		s.Args = append(s.Args, vrt.Pick(r, widths))
	}
	for i := r.Range(1, 3); i > 0; i-- {
		s.Outs = append(s.Outs, vrt.Pick(r, []int{1, 1, 2, 3, 5, 8}))
	}
	s.Gates = r.Range(1, maxGates)
	switch r.Intn(5) {
	case 0:
		s.Ops = []circuit.Operation{circuit.OR, circuit.INV, circuit.XNOR}
	case 1:
		s.Ops = []circuit.Operation{circuit.INV}
	case 2:
		s.Ops = []circuit.Operation{circuit.AND, circuit.XOR}
	}
	s.SameP = []int{0, 0, 5, 30}[r.Intn(4)]
	return s
}
