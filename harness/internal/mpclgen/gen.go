package mpclgen

import (
	"fmt"
	"math/big"
	"strings"

	"verifharness/internal/vrt"
)

// env is the interpreter environment.
type env struct {
	scopes []map[string]*Val
	ret    []Val
	steps  int
	flat   bool // alternate semantics: no block scopes (an inner var of an existing name assigns it)
	// litSext: alternate semantics of `x = literal` inside a branch for a signed
	// x wider than the literal's storage (32 bits below 2^32, else 64): the
	// literal is sign-extended from its storage width
	litSext bool
}

func (e *env) push() { e.scopes = append(e.scopes, map[string]*Val{}) }
func (e *env) pop()  { e.scopes = e.scopes[:len(e.scopes)-1] }
func (e *env) get(n string) *Val {
	for i := len(e.scopes) - 1; i >= 0; i-- {
		if v, ok := e.scopes[i][n]; ok {
			return v
		}
	}
	panic("mpclgen: unbound " + n)
}
func (e *env) def(n string, v Val) { c := v.Clone(); e.scopes[len(e.scopes)-1][n] = &c }

// expr is a typed expression with its source and meaning.
type expr struct {
	t     *Type
	src   string
	eval  func(*env) Val
	konst bool // built from constants only (folded by the compiler: C12's business)
}

// stmt is a statement; exec returns true when the function returned.
type stmt struct {
	lines []string        // leaf statements
	kids  func() []string // compound statements render their (live) children
	exec  func(*env) bool
	dead  bool // removed by the minimiser
}

func (s *stmt) render() []string {
	if s.dead {
		return nil
	}
	if s.kids != nil {
		return s.kids()
	}
	return s.lines
}

func renderBlock(body []*stmt) []string {
	var out []string
	for _, s := range body {
		out = append(out, indent(s.render())...)
	}
	return out
}

type variable struct {
	name  string
	t     *Type
	ro    bool // loop variable / constant: not assignable
	loop  bool
	bound int // loop variables: values are 0..bound-1
}

type function struct {
	name    string
	params  []variable
	results []*Type
	body    []*stmt
	sig     string
	dead    bool
}

// Config selects the shape of generated programs.
type Config struct {
	Args       int // number of main arguments (parties)
	MaxStmts   int // statements per block
	MaxDepth   int // expression depth
	Widths     []int
	Arrays     bool
	Structs    bool
	Funcs      bool
	Loops      bool
	Division   bool
	Mult       bool
	AliasBias  bool // favour shifts, casts, slices of arrays, element updates
	ScalarArgs bool // only scalar main arguments
	// TextArrays: array elements are 8/16/32/64 bits wide so that array
	// inputs can be written as hex text (two-party tools take text inputs).
	TextArrays bool
	// NoConst: no typed constants or loop-variable casts as operands (the
	// compiler folds those: C12's business); constants then appear only as
	// literal right operands next to a non-constant left operand.
	NoConst bool
	// NoModulo: no `%` anywhere, not even to bring a dynamic index into range
	// (for the GMW target, whose divider is a known finding of C07/C09)
	NoModulo bool
}

// DefaultWidths is the width menu of the property statement.
var DefaultWidths = []int{1, 2, 3, 7, 8, 9, 15, 16, 17, 31, 32, 33, 63, 64, 65, 100, 127, 128, 129, 130}

// Program is a generated program.
type Program struct {
	Src     string
	ArgT    []*Type
	ArgN    []string
	RetT    []*Type
	Feat    map[string]bool
	mainFn  *function
	helpers []*function
	structs []*Type
	all     []*stmt
	// globals are package-level declarations that main's parameters shadow
	// (dead under correct scoping: nothing reads the package-level value)
	globals []string
}

type gen struct {
	r      *vrt.Rng
	cfg    Config
	scopes [][]variable
	funcs  []*function
	fmap   map[string]*function
	types  []*Type
	arrT   []*Type // small pool of array types shared by arguments, locals, parameters and results
	nvar   int
	feat   map[string]bool
	inLoop int
	all    []*stmt
}

func (g *gen) fresh(p string) string { g.nvar++; return fmt.Sprintf("%s%d", p, g.nvar) }

func (g *gen) push()              { g.scopes = append(g.scopes, nil) }
func (g *gen) pop()               { g.scopes = g.scopes[:len(g.scopes)-1] }
func (g *gen) declare(v variable) { g.scopes[len(g.scopes)-1] = append(g.scopes[len(g.scopes)-1], v) }

// visible returns the variables in scope, innermost declaration winning.
func (g *gen) visible() []variable {
	seen := map[string]bool{}
	var out []variable
	for i := len(g.scopes) - 1; i >= 0; i-- {
		for j := len(g.scopes[i]) - 1; j >= 0; j-- {
			v := g.scopes[i][j]
			if !seen[v.name] {
				seen[v.name] = true
				out = append(out, v)
			}
		}
	}
	return out
}

func (g *gen) scalarType() *Type {
	w := vrt.Pick(g.r, g.cfg.Widths)
	switch g.r.Intn(7) {
	case 0:
		return Bool
	case 1, 2, 3:
		return Int(max(w, 2))
	default:
		return Uint(w)
	}
}

func (g *gen) intType() *Type {
	for {
		t := g.scalarType()
		if t.Integer() {
			return t
		}
	}
}

func litExpr(t *Type, v *big.Int) expr {
	val := Val{T: t, I: wrap(v, t.Bits)}
	return expr{t: t, src: v.String(), eval: func(*env) Val { return val.Clone() }, konst: true}
}

// lit returns a non-negative literal that fits t (usable only next to a typed operand).
func (g *gen) lit(t *Type) expr {
	bits := t.Bits
	if t.Kind == KInt {
		bits--
	}
	if bits > 62 {
		bits = 62
	}
	var v *big.Int
	switch g.r.Intn(5) {
	case 0:
		v = big.NewInt(int64(g.r.Intn(4)))
		if bits < 2 {
			v = big.NewInt(int64(g.r.Intn(1 << uint(bits))))
		}
	case 1:
		v = new(big.Int).Sub(new(big.Int).Lsh(big.NewInt(1), uint(bits)), big.NewInt(1))
	default:
		v = g.r.Big(bits)
		// value classes the compiler has shortcuts for, derived from the drawn
		// value itself (no further PRNG draws): powers of two, and literals in
		// [2^31, 2^32) - stored in 32 bits with the top bit set - next to a
		// wider operand
		sel := new(big.Int).And(v, big.NewInt(7)).Int64()
		rest := new(big.Int).Rsh(v, 3)
		switch {
		case sel == 0 && bits > 1:
			k := new(big.Int).Mod(rest, big.NewInt(int64(bits))).Int64()
			v = new(big.Int).Lsh(big.NewInt(1), uint(k))
			g.feat["literal-power-of-two"] = true
		case sel == 1 && bits > 32:
			v = new(big.Int).Add(big.NewInt(1<<31), new(big.Int).And(rest, big.NewInt(1<<31-1)))
			g.feat["literal-with-bit-31-set-next-to-a-wider-operand"] = true
		}
	}
	return litExpr(t, v)
}

func (g *gen) varsOf(pred func(variable) bool) []variable {
	var out []variable
	for _, v := range g.visible() {
		if pred(v) {
			out = append(out, v)
		}
	}
	return out
}

func varExpr(v variable) expr {
	n := v.name
	return expr{t: v.t, src: n, eval: func(e *env) Val { return e.get(n).Clone() }}
}

// varLeaf returns a leaf of scalar type t that depends on a variable: a
// variable, an array element, a struct field, or a cast of an integer variable.
func (g *gen) varLeaf(t *Type) (expr, bool) {
	var cands []expr
	for _, v := range g.visible() {
		switch {
		case v.loop:
		case v.t.Equal(t):
			cands = append(cands, varExpr(v))
		case v.t.Kind == KArr && v.t.Elem.Equal(t):
			cands = append(cands, g.indexExpr(v))
		case v.t.Kind == KStruct:
			for fi, f := range v.t.Fields {
				if f.T.Equal(t) {
					n, idx, fname := v.name, fi, f.Name
					cands = append(cands, expr{t: t, src: n + "." + fname, eval: func(e *env) Val { return e.get(n).E[idx].Clone() }})
					g.feat["struct-field-read"] = true
				}
			}
		}
	}
	if len(cands) > 0 && g.r.Intn(6) != 0 {
		return vrt.Pick(g.r, cands), true
	}
	if t.Kind == KBool {
		return expr{}, false
	}
	others := g.varsOf(func(v variable) bool { return v.t.Integer() && !v.t.Equal(t) && castOK(v.t, t) && !v.loop })
	if len(others) > 0 {
		return g.cast(t, varExpr(vrt.Pick(g.r, others))), true
	}
	// intN -> wider uintM goes through uintN (reinterpret, then zero-extend)
	signedVars := g.varsOf(func(v variable) bool { return v.t.Kind == KInt && !v.loop })
	if len(signedVars) > 0 && t.Kind == KUint {
		v := vrt.Pick(g.r, signedVars)
		return g.cast(t, g.cast(Uint(v.t.Bits), varExpr(v))), true
	}
	// element of an integer array, cast
	arrs := g.varsOf(func(v variable) bool { return v.t.Kind == KArr && v.t.Elem.Integer() && castOK(v.t.Elem, t) })
	if len(arrs) > 0 {
		e := g.indexExpr(vrt.Pick(g.r, arrs))
		if e.t.Equal(t) {
			return e, true
		}
		return g.cast(t, e), true
	}
	if len(cands) > 0 {
		return vrt.Pick(g.r, cands), true
	}
	return expr{}, false
}

// leaf returns a leaf expression of scalar type t.
func (g *gen) leaf(t *Type) expr {
	if t.Kind == KBool {
		if e, ok := g.varLeaf(t); ok && g.r.Intn(3) != 0 {
			return e
		}
		it := g.intType()
		return g.cmp(g.leaf(it), g.leafOrLit(it))
	}
	if g.r.Intn(10) != 0 {
		if e, ok := g.varLeaf(t); ok {
			return e
		}
	}
	if g.cfg.NoConst {
		if e, ok := g.varLeaf(t); ok {
			return e
		}
		g.feat["folded-const-expr"] = true
	}
	loops := g.varsOf(func(v variable) bool { return v.loop })
	if len(loops) > 0 && g.r.Bool() && t.Bits >= 4 {
		lv := vrt.Pick(g.r, loops)
		g.feat["cast-loop-var"] = true
		n := lv.name
		return expr{t: t, src: fmt.Sprintf("%s(%s)", t.Src(), n), eval: func(e *env) Val { return Val{T: t, I: wrap(e.get(n).I, t.Bits)} }, konst: true}
	}
	l := g.lit(t)
	g.feat["typed-const"] = true
	return expr{t: t, src: fmt.Sprintf("%s(%s)", t.Src(), l.src), eval: l.eval, konst: true}
}

// nonConst replaces an all-constant operand by a variable-dependent leaf when
// one exists, so that the compiler cannot fold the operator applied to it.
func (g *gen) nonConst(e expr) expr {
	if !e.konst {
		return e
	}
	if v, ok := g.varLeaf(e.t); ok {
		return v
	}
	g.feat["folded-const-expr"] = true
	return e
}

func (g *gen) leafOrLit(t *Type) expr {
	return g.leaf(t)
}

// castOK: every direction except intN -> wider uintM (the compiler's
// sign-extension rule there is deliberate but anchored by no document).
func castOK(from, to *Type) bool {
	if !from.Integer() || !to.Integer() {
		return false
	}
	if from.Kind == KInt && to.Kind == KUint && to.Bits > from.Bits {
		return false
	}
	return true
}

func (g *gen) cast(to *Type, e expr) expr {
	e = g.nonConst(e)
	from := e.t
	g.feat["cast"] = true
	if to.Bits < from.Bits {
		g.feat["cast-narrow"] = true
	} else if to.Bits > from.Bits {
		g.feat["cast-widen-"+map[Kind]string{KInt: "signed", KUint: "unsigned"}[from.Kind]] = true
	}
	return expr{t: to, src: fmt.Sprintf("%s(%s)", to.Src(), e.src), eval: func(en *env) Val {
		v := e.eval(en)
		var x *big.Int
		if from.Kind == KInt {
			x = signed(v.I, from.Bits) // sign-extends when widening, truncates when narrowing
		} else {
			x = v.I
		}
		return Val{T: to, I: wrap(x, to.Bits)}
	}}
}

func (g *gen) indexExpr(arr variable) expr {
	n, et, cnt := arr.name, arr.t.Elem, arr.t.N
	loops := g.varsOf(func(v variable) bool { return v.loop && v.bound <= cnt })
	switch k := g.r.Intn(4); {
	case k == 0 && len(loops) > 0:
		lv := vrt.Pick(g.r, loops)
		ln := lv.name
		g.feat["index-loop-var"] = true
		// loop bounds never exceed array sizes of arrays indexed this way (see loop generation): guard by modulo
		return expr{t: et, src: fmt.Sprintf("%s[%s]", n, ln), eval: func(e *env) Val {
			i := int(e.get(ln).I.Int64())
			return e.get(n).E[i%cnt].Clone()
		}}
	case k == 1:
		// dynamic index masked into range
		idxVars := g.varsOf(func(v variable) bool { return v.t.Kind == KUint && v.t.Bits >= 2 && v.t.Bits <= 64 && !v.loop })
		if len(idxVars) > 0 && cnt >= 2 && !(g.cfg.NoModulo && cnt&(cnt-1) != 0) {
			iv := vrt.Pick(g.r, idxVars)
			in := iv.name
			g.feat["index-dynamic"] = true
			var src string
			if cnt&(cnt-1) == 0 {
				src = fmt.Sprintf("%s[%s & %d]", n, in, cnt-1)
			} else {
				src = fmt.Sprintf("%s[%s %% %d]", n, in, cnt)
			}
			return expr{t: et, src: src, eval: func(e *env) Val {
				i := new(big.Int).Mod(e.get(in).I, big.NewInt(int64(cnt)))
				return e.get(n).E[int(i.Int64())].Clone()
			}}
		}
	}
	i := g.r.Intn(cnt)
	g.feat["index-const"] = true
	return expr{t: et, src: fmt.Sprintf("%s[%d]", n, i), eval: func(e *env) Val { return e.get(n).E[i].Clone() }}
}

var arithOps = []string{"+", "-", "*", "&", "|", "^", "&^"}

func applyBin(op string, t *Type, a, b *big.Int) *big.Int {
	var r *big.Int
	switch op {
	case "+":
		r = new(big.Int).Add(a, b)
	case "-":
		r = new(big.Int).Sub(a, b)
	case "*":
		r = new(big.Int).Mul(a, b)
	case "&":
		r = new(big.Int).And(a, b)
	case "|":
		r = new(big.Int).Or(a, b)
	case "^":
		r = new(big.Int).Xor(a, b)
	case "&^":
		r = new(big.Int).AndNot(a, b)
	case "/":
		if t.Kind == KInt {
			r = new(big.Int).Quo(signed(a, t.Bits), signed(b, t.Bits))
		} else {
			r = new(big.Int).Quo(a, b)
		}
	case "%":
		if t.Kind == KInt {
			r = new(big.Int).Rem(new(big.Int).Abs(signed(a, t.Bits)), new(big.Int).Abs(signed(b, t.Bits)))
		} else {
			r = new(big.Int).Rem(a, b)
		}
	case "<<":
		k := int(b.Int64())
		if k >= t.Bits {
			r = new(big.Int)
		} else {
			r = new(big.Int).Lsh(a, uint(k))
		}
	case ">>":
		k := int(b.Int64())
		if t.Kind == KInt {
			r = new(big.Int).Rsh(signed(a, t.Bits), uint(min(k, t.Bits))) // arithmetic
		} else if k >= t.Bits {
			r = new(big.Int)
		} else {
			r = new(big.Int).Rsh(a, uint(k))
		}
	default:
		panic("op " + op)
	}
	return wrap(r, t.Bits)
}

func (g *gen) bin(op string, a, b expr) expr {
	a = g.nonConst(a)
	t := a.t
	g.feat["op"+op] = true
	return expr{t: t, src: fmt.Sprintf("(%s %s %s)", a.src, op, b.src), eval: func(e *env) Val {
		x, y := a.eval(e), b.eval(e)
		return Val{T: t, I: applyBin(op, t, x.I, y.I)}
	}}
}

func (g *gen) cmp(a, b expr) expr {
	a = g.nonConst(a)
	op := vrt.Pick(g.r, []string{"<", "<=", ">", ">=", "==", "!="})
	t := a.t
	g.feat["cmp"+op+map[Kind]string{KInt: "s", KUint: "u"}[t.Kind]] = true
	return expr{t: Bool, src: fmt.Sprintf("(%s %s %s)", a.src, op, b.src), eval: func(e *env) Val {
		x, y := a.eval(e).I, b.eval(e).I
		if t.Kind == KInt {
			x, y = signed(x, t.Bits), signed(y, t.Bits)
		}
		c := x.Cmp(y)
		var r bool
		switch op {
		case "<":
			r = c < 0
		case "<=":
			r = c <= 0
		case ">":
			r = c > 0
		case ">=":
			r = c >= 0
		case "==":
			r = c == 0
		default:
			r = c != 0
		}
		v := Val{T: Bool, I: new(big.Int)}
		if r {
			v.I.SetInt64(1)
		}
		return v
	}}
}

// expr generates an expression of scalar type t.
func (g *gen) expr(t *Type, depth int) expr {
	if depth <= 0 || g.r.Intn(4) == 0 {
		return g.leaf(t)
	}
	if t.Kind == KBool {
		switch g.r.Intn(5) {
		case 0:
			a, b := g.expr(Bool, depth-1), g.expr(Bool, depth-1)
			op := vrt.Pick(g.r, []string{"&&", "||"})
			g.feat["logic"+op] = true
			return expr{t: Bool, src: fmt.Sprintf("(%s %s %s)", a.src, op, b.src), eval: func(e *env) Val {
				x, y := a.eval(e).I.Sign() != 0, b.eval(e).I.Sign() != 0
				r := x && y
				if op == "||" {
					r = x || y
				}
				v := Val{T: Bool, I: new(big.Int)}
				if r {
					v.I.SetInt64(1)
				}
				return v
			}}
		case 1:
			a := g.expr(Bool, depth-1)
			g.feat["logic!"] = true
			return expr{t: Bool, src: "!" + a.src, eval: func(e *env) Val {
				v := Val{T: Bool, I: new(big.Int)}
				if a.eval(e).I.Sign() == 0 {
					v.I.SetInt64(1)
				}
				return v
			}}
		default:
			it := g.intType()
			a := g.nonConst(g.expr(it, depth-1))
			var b expr
			if g.r.Intn(3) == 0 && !a.konst {
				b = g.lit(it)
				g.feat["cmp-literal"] = true
			} else {
				b = g.expr(it, depth-1)
			}
			return g.cmp(a, b)
		}
	}
	switch k := g.r.Intn(12); {
	case k < 5:
		ops := arithOps
		if !g.cfg.Mult || t.Bits > 64 && g.r.Intn(3) != 0 {
			ops = []string{"+", "-", "&", "|", "^", "&^"}
		}
		op := vrt.Pick(g.r, ops)
		a := g.nonConst(g.expr(t, depth-1))
		var b expr
		if g.r.Intn(3) == 0 && !a.konst {
			b = g.lit(t)
			g.feat["arith-literal"] = true
		} else {
			b = g.expr(t, depth-1)
		}
		return g.bin(op, a, b)
	case k == 5 || k == 6 && g.cfg.AliasBias:
		op := vrt.Pick(g.r, []string{"<<", ">>"})
		a := g.expr(t, depth-1)
		cnt := g.r.Intn(t.Bits + 1)
		if g.r.Intn(8) == 0 {
			cnt = t.Bits + g.r.Intn(3)
			g.feat["shift>=width"] = true
		}
		if op == ">>" && t.Kind == KInt {
			g.feat["arith-shift-right"] = true
		}
		return g.bin(op, a, litExpr(Uint(32), big.NewInt(int64(cnt))))
	case k == 6 && g.cfg.Division && t.Bits <= 64:
		op := vrt.Pick(g.r, []string{"/", "%"})
		a := g.expr(t, depth-1)
		var b expr
		if t.Kind == KUint && g.r.Bool() {
			d := g.expr(t, depth-1)
			b = g.bin("|", d, litExpr(t, big.NewInt(1)))
		} else {
			l := g.lit(t)
			b = litExpr(t, new(big.Int).Add(new(big.Int).Rsh(l.eval(nil).I, 1), big.NewInt(1)))
			if b.eval(nil).I.Sign() == 0 || t.Kind == KInt && b.eval(nil).I.Bit(t.Bits-1) == 1 {
				b = litExpr(t, big.NewInt(1))
			}
		}
		g.feat["div"+map[Kind]string{KInt: "s", KUint: "u"}[t.Kind]] = true
		return g.bin(op, a, b)
	case k == 7:
		// cast of an expression of another type
		for tries := 0; tries < 4; tries++ {
			from := g.intType()
			if !from.Equal(t) && castOK(from, t) {
				return g.cast(t, g.expr(from, depth-1))
			}
		}
		return g.leaf(t)
	case k == 8:
		a := g.nonConst(g.expr(t, depth-1))
		g.feat["unary-minus"] = true
		return expr{t: t, src: "(-" + a.src + ")", eval: func(e *env) Val {
			return Val{T: t, I: wrap(new(big.Int).Neg(a.eval(e).I), t.Bits)}
		}}
	case k == 9 && g.cfg.Funcs:
		if c, ok := g.callExpr(t, depth); ok {
			return c
		}
		return g.leaf(t)
	default:
		return g.leaf(t)
	}
}

// argFor builds an argument of type t: an expression for scalars, a variable
// of exactly that type for arrays and structs (passed by value).
func (g *gen) argFor(t *Type, depth int) (expr, bool) {
	if t.Scalar() {
		return g.expr(t, depth), true
	}
	vs := g.varsOf(func(v variable) bool { return v.t.Equal(t) })
	if len(vs) == 0 {
		return expr{}, false
	}
	g.feat["compound-argument"] = true
	return varExpr(vrt.Pick(g.r, vs)), true
}

// callExpr calls an already generated single-result function returning t.
func (g *gen) callExpr(t *Type, depth int) (expr, bool) {
	var cands []*function
	for _, f := range g.funcs {
		if len(f.results) == 1 && f.results[0].Equal(t) {
			cands = append(cands, f)
		}
	}
	if len(cands) == 0 {
		return expr{}, false
	}
	f := vrt.Pick(g.r, cands)
	var args []expr
	var srcs []string
	for _, p := range f.params {
		a, ok := g.argFor(p.t, depth-1)
		if !ok {
			return expr{}, false
		}
		args = append(args, a)
		srcs = append(srcs, a.src)
	}
	g.feat["call"] = true
	return expr{t: t, src: fmt.Sprintf("%s(%s)", f.name, strings.Join(srcs, ", ")), eval: func(e *env) Val {
		var vals []Val
		for _, a := range args {
			vals = append(vals, a.eval(e))
		}
		return callFnEnv(f, vals, &env{flat: e.flat, litSext: e.litSext})[0]
	}}, true
}

func callFn(f *function, args []Val, flat bool) []Val {
	return callFnEnv(f, args, &env{flat: flat})
}

func callFnEnv(f *function, args []Val, e *env) []Val {
	e.push()
	for i, p := range f.params {
		e.def(p.name, args[i])
	}
	for _, s := range f.body {
		if !s.dead && s.exec(e) {
			break
		}
	}
	return e.ret
}

func indent(lines []string) []string {
	out := make([]string, len(lines))
	for i, l := range lines {
		out[i] = "\t" + l
	}
	return out
}

func execBlock(e *env, body []*stmt) bool {
	e.push()
	defer e.pop()
	for _, s := range body {
		if !s.dead && s.exec(e) {
			return true
		}
	}
	return false
}

// block generates statements; when mustReturn the last one is a return.
func (g *gen) block(n, depth int, rets []*Type, mustReturn bool, allowReturn bool) []*stmt {
	g.push()
	defer g.pop()
	var out []*stmt
	for i := 0; i < n; i++ {
		st := g.stmt(depth, rets, allowReturn)
		out = append(out, &st)
		g.all = append(g.all, &st)
	}
	if mustReturn {
		st := g.ret(rets)
		out = append(out, &st)
	}
	return out
}

func (g *gen) ret(rets []*Type) stmt {
	var es []expr
	var srcs []string
	for _, t := range rets {
		var e expr
		if t.Scalar() {
			e = g.expr(t, g.cfg.MaxDepth)
		} else {
			vs := g.varsOf(func(v variable) bool { return v.t.Equal(t) })
			if len(vs) == 0 {
				panic("mpclgen: no variable of return type " + t.Src())
			}
			e = varExpr(vrt.Pick(g.r, vs))
		}
		es = append(es, e)
		srcs = append(srcs, e.src)
	}
	return stmt{lines: []string{"return " + strings.Join(srcs, ", ")}, exec: func(en *env) bool {
		en.ret = nil
		for _, e := range es {
			en.ret = append(en.ret, e.eval(en))
		}
		return true
	}}
}

func (g *gen) stmt(depth int, rets []*Type, allowReturn bool) stmt {
	assignable := g.varsOf(func(v variable) bool { return !v.ro && v.t.Scalar() })
	arrays := g.varsOf(func(v variable) bool { return !v.ro && v.t.Kind == KArr })
	structs := g.varsOf(func(v variable) bool { return !v.ro && v.t.Kind == KStruct })
	for {
		switch g.r.Intn(21) {
		case 20: // x takes one of two literals depending on a condition (a select of two constants)
			if len(assignable) == 0 || depth <= 0 || g.inLoop > 0 {
				continue
			}
			v := vrt.Pick(g.r, assignable)
			if !v.t.Integer() {
				continue
			}
			n, t := v.name, v.t
			c := g.expr(Bool, g.cfg.MaxDepth)
			l1, l2 := g.lit(t), g.lit(t)
			if l1.eval(nil).I.Cmp(l2.eval(nil).I) == 0 {
				continue // the same literal in both arms makes the variable a constant (folding: C12)
			}
			g.feat["literal-select"] = true
			if litStorageSign(l1.eval(nil).I, t) != nil || litStorageSign(l2.eval(nil).I, t) != nil {
				g.feat["literal-select-top-storage-bit"] = true
			}
			return stmt{lines: []string{"if " + c.src + " {", "\t" + n + " = " + l1.src, "} else {", "\t" + n + " = " + l2.src, "}"}, exec: func(en *env) bool {
				l := l2
				if c.eval(en).I.Sign() != 0 {
					l = l1
				}
				v := l.eval(en).I
				if en.litSext {
					if alt := litStorageSign(v, t); alt != nil {
						v = alt
					}
				}
				en.get(n).I = v
				return false
			}}
		case 17: // for i, v := range a / for _, v := range a / for i := range a
			if !g.cfg.Loops || depth <= 0 || g.inLoop >= 2 {
				continue
			}
			if s, ok := g.rangeStmt(depth, rets); ok {
				return s
			}
		case 18: // c := a for an array or struct value: an independent copy
			if g.inLoop > 0 {
				continue
			}
			comp := g.varsOf(func(v variable) bool { return !v.t.Scalar() && v.t.Width() <= 512 })
			if len(comp) == 0 {
				continue
			}
			srcv := vrt.Pick(g.r, comp)
			name, sn := g.fresh("c"), srcv.name
			g.declareAfter(variable{name: name, t: srcv.t})
			g.feat["compound-copy"] = true
			return stmt{lines: []string{fmt.Sprintf("%s := %s", name, sn)}, exec: func(en *env) bool { en.def(name, en.get(sn).Clone()); return false }}
		case 19: // s.f[i] = e for an array field
			var cands []func() stmt
			for _, sv := range structs {
				for fi, f := range sv.t.Fields {
					if f.T.Kind != KArr || !f.T.Elem.Scalar() {
						continue
					}
					n, idx, ft, fname := sv.name, fi, f.T, f.Name
					cands = append(cands, func() stmt {
						i := g.r.Intn(ft.N)
						e := g.expr(ft.Elem, depth)
						g.feat["struct-array-field-elem-assign"] = true
						return stmt{lines: []string{fmt.Sprintf("%s.%s[%d] = %s", n, fname, i, e.src)}, exec: func(en *env) bool { en.get(n).E[idx].E[i] = e.eval(en); return false }}
					})
				}
			}
			if len(cands) == 0 {
				continue
			}
			return vrt.Pick(g.r, cands)()
		case 16: // a bare literal stored into a variable, an array element or a struct field
			type target struct {
				src string
				t   *Type
				set func(en *env, v Val)
			}
			var ts []target
			for _, v := range assignable {
				if g.cfg.NoConst {
					break // a variable holding a literal is a constant: what follows is folded (C12)
				}
				n := v.name
				ts = append(ts, target{n, v.t, func(en *env, x Val) { en.get(n).I = x.I }})
			}
			for _, a := range arrays {
				if !a.t.Elem.Scalar() {
					continue
				}
				n, i := a.name, g.r.Intn(a.t.N)
				for k := 0; k < 2; k++ { // arrays weigh double: element stores are the aliasing-sensitive ones
					ts = append(ts, target{fmt.Sprintf("%s[%d]", n, i), a.t.Elem, func(en *env, x Val) { en.get(n).E[i] = x }})
				}
			}
			for _, sv := range structs {
				for fi, f := range sv.t.Fields {
					if f.T.Scalar() {
						n, idx := sv.name, fi
						ts = append(ts, target{n + "." + f.Name, f.T, func(en *env, x Val) { en.get(n).E[idx] = x }})
					}
				}
			}
			if len(ts) == 0 {
				continue
			}
			tg := vrt.Pick(g.r, ts)
			var l expr
			if tg.t.Kind == KBool {
				b := g.r.Intn(2)
				l = expr{t: Bool, src: []string{"false", "true"}[b], eval: func(*env) Val { return Val{T: Bool, I: big.NewInt(int64(b))} }}
			} else {
				l = g.lit(tg.t)
				if g.r.Intn(3) == 0 { // a value with the element's top (non-sign) bit set, in hex
					bits := tg.t.Bits
					if tg.t.Kind == KInt {
						bits--
					}
					if bits >= 1 && bits <= 62 {
						v := new(big.Int).Lsh(big.NewInt(1), uint(bits-1))
						v.Or(v, g.r.Big(bits))
						l = litExpr(tg.t, v)
						l.src = "0x" + v.Text(16)
					}
				}
			}
			g.feat["literal-store"] = true
			return stmt{lines: []string{tg.src + " = " + l.src}, exec: func(en *env) bool { tg.set(en, l.eval(en)); return false }}
		case 0, 1: // var x T = e
			t := g.scalarType()
			e := g.expr(t, g.cfg.MaxDepth)
			name := g.fresh("v")
			shadow := ""
			cur := map[string]bool{}
			for _, v := range g.scopes[len(g.scopes)-1] {
				cur[v.name] = true
			}
			if vis := g.varsOf(func(v variable) bool { return v.t.Scalar() && !v.loop && !v.ro && !cur[v.name] }); len(vis) > 0 && len(g.scopes) > 2 && g.r.Intn(5) == 0 {
				if cv := vrt.Pick(g.r, vis); !strings.Contains(e.src, cv.name) && cv.t.Equal(t) {
					name = cv.name // shadow an outer variable
					shadow = " // shadows"
					g.feat["shadow"] = true
				}
			}
			// the initialiser is evaluated before the new name is in scope
			g.declareAfter(variable{name: name, t: t})
			isShadow := shadow != ""
			return stmt{lines: []string{fmt.Sprintf("var %s %s = %s%s", name, t.Src(), e.src, shadow)}, exec: func(en *env) bool {
				if isShadow && en.flat {
					en.get(name).I = e.eval(en).I
					return false
				}
				en.def(name, e.eval(en))
				return false
			}}
		case 2: // x := e (not in loop bodies: unrolling re-declares the name)
			if g.inLoop > 0 {
				continue
			}
			t := g.scalarType()
			e := g.expr(t, g.cfg.MaxDepth)
			if !isBareLiteral(e.src) {
				name := g.fresh("v")
				g.declareAfter(variable{name: name, t: t})
				g.feat["short-decl"] = true
				return stmt{lines: []string{fmt.Sprintf("%s := %s", name, e.src)}, exec: func(en *env) bool { en.def(name, e.eval(en)); return false }}
			}
		case 3, 4: // assignment
			if len(assignable) == 0 {
				continue
			}
			v := vrt.Pick(g.r, assignable)
			n, t := v.name, v.t
			if t.Integer() && g.r.Intn(3) == 0 {
				op := vrt.Pick(g.r, []string{"+", "-", "*", "^", "|", "&"})
				if !g.cfg.Mult && op == "*" {
					op = "+"
				}
				e := g.expr(t, depth)
				g.feat["compound-assign"] = true
				return stmt{lines: []string{fmt.Sprintf("%s %s= %s", n, op, e.src)}, exec: func(en *env) bool {
					cur := en.get(n)
					cur.I = applyBin(op, t, cur.I, e.eval(en).I)
					return false
				}}
			}
			if t.Integer() && g.r.Intn(6) == 0 {
				op := vrt.Pick(g.r, []string{"++", "--"})
				g.feat["incdec"] = true
				return stmt{lines: []string{n + op}, exec: func(en *env) bool {
					cur := en.get(n)
					cur.I = applyBin(string(op[0]), t, cur.I, big.NewInt(1))
					return false
				}}
			}
			e := g.expr(t, depth)
			return stmt{lines: []string{fmt.Sprintf("%s = %s", n, e.src)}, exec: func(en *env) bool { en.get(n).I = e.eval(en).I; return false }}
		case 5: // array element update
			if len(arrays) == 0 {
				continue
			}
			a := vrt.Pick(g.r, arrays)
			n, et := a.name, a.t.Elem
			i := g.r.Intn(a.t.N)
			e := g.expr(et, depth)
			g.feat["array-elem-assign"] = true
			return stmt{lines: []string{fmt.Sprintf("%s[%d] = %s", n, i, e.src)}, exec: func(en *env) bool { en.get(n).E[i] = e.eval(en); return false }}
		case 6: // struct field update
			if len(structs) == 0 {
				continue
			}
			s := vrt.Pick(g.r, structs)
			fi := g.r.Intn(len(s.t.Fields))
			f := s.t.Fields[fi]
			if !f.T.Scalar() {
				continue
			}
			n := s.name
			e := g.expr(f.T, depth)
			g.feat["struct-field-assign"] = true
			return stmt{lines: []string{fmt.Sprintf("%s.%s = %s", n, f.Name, e.src)}, exec: func(en *env) bool { en.get(n).E[fi] = e.eval(en); return false }}
		case 7, 8: // if / else if / else
			if depth <= 0 {
				continue
			}
			return g.ifStmt(depth, rets, allowReturn)
		case 9: // for loop
			if !g.cfg.Loops || depth <= 0 || g.inLoop >= 2 {
				continue
			}
			return g.forStmt(depth, rets)
		case 10: // new array, fully initialised by a loop
			if !g.cfg.Arrays {
				continue
			}
			return g.newArray(depth)
		case 11: // multi-result call
			if !g.cfg.Funcs || g.inLoop > 0 {
				continue
			}
			if s, ok := g.multiCall(depth); ok {
				return s
			}
		case 12: // swap
			if len(assignable) < 2 {
				continue
			}
			a := vrt.Pick(g.r, assignable)
			var same []variable
			for _, v := range assignable {
				if v.name != a.name && v.t.Equal(a.t) {
					same = append(same, v)
				}
			}
			if len(same) == 0 {
				continue
			}
			b := vrt.Pick(g.r, same)
			an, bn := a.name, b.name
			g.feat["swap"] = true
			return stmt{lines: []string{fmt.Sprintf("%s, %s = %s, %s", an, bn, bn, an)}, exec: func(en *env) bool {
				x, y := en.get(an), en.get(bn)
				x.I, y.I = y.I, x.I
				return false
			}}
		case 13: // new struct value, every field assigned
			if !g.cfg.Structs || len(g.types) == 0 {
				continue
			}
			st := vrt.Pick(g.r, g.types)
			name := g.fresh("s")
			lines := []string{fmt.Sprintf("var %s %s", name, st.Name)}
			var es []expr
			for _, f := range st.Fields {
				var e expr
				if f.T.Scalar() {
					e = g.expr(f.T, depth)
				} else {
					vs := g.varsOf(func(v variable) bool { return v.t.Equal(f.T) })
					if len(vs) == 0 {
						e = expr{}
					} else {
						e = varExpr(vrt.Pick(g.r, vs))
					}
				}
				es = append(es, e)
				if e.eval != nil {
					lines = append(lines, fmt.Sprintf("%s.%s = %s", name, f.Name, e.src))
				}
			}
			for _, e := range es {
				if e.eval == nil {
					// an array field without a source value: skip structs we cannot fully initialise
					continue
				}
			}
			full := true
			for _, e := range es {
				if e.eval == nil {
					full = false
				}
			}
			if !full {
				continue
			}
			g.declareAfter(variable{name: name, t: st})
			g.feat["struct-var"] = true
			return stmt{lines: lines, exec: func(en *env) bool {
				v := Zero(st)
				for i, e := range es {
					v.E[i] = e.eval(en)
				}
				en.def(name, v)
				return false
			}}
		case 15: // a multi-dimensional array: stores into and reads from several elements
			if !g.cfg.Arrays {
				continue
			}
			et := g.intType()
			dims := []int{g.r.Range(2, 3), g.r.Range(2, 3)}
			if g.r.Intn(3) == 0 {
				dims = append(dims, 2)
			}
			total := 1
			tsrc := ""
			for _, d := range dims {
				total *= d
				tsrc += fmt.Sprintf("[%d]", d)
			}
			name := g.fresh("m")
			sub := func(flat int) string {
				var idx []int
				for k := len(dims) - 1; k >= 0; k-- {
					idx = append([]int{flat % dims[k]}, idx...)
					flat /= dims[k]
				}
				out := name
				for _, i := range idx {
					out += fmt.Sprintf("[%d]", i)
				}
				return out
			}
			type store struct {
				flat int
				op   string
				e    expr
			}
			var stores []store
			lines := []string{fmt.Sprintf("var %s %s%s", name, tsrc, et.Src())}
			for k := g.r.Range(2, 5); k > 0; k-- {
				st := store{flat: g.r.Intn(total), e: g.expr(et, depth)}
				if g.r.Intn(4) == 0 {
					st.op = vrt.Pick(g.r, []string{"+", "^", "|"})
				}
				stores = append(stores, st)
				lines = append(lines, fmt.Sprintf("%s %s= %s", sub(st.flat), st.op, st.e.src))
			}
			r1, r2, r3 := g.r.Intn(total), g.r.Intn(total), stores[0].flat
			res := g.fresh("v")
			lines = append(lines, fmt.Sprintf("var %s %s = %s + (%s ^ %s)", res, et.Src(), sub(r1), sub(r2), sub(r3)))
			g.declareAfter(variable{name: res, t: et})
			g.feat["multi-dim-array"] = true
			return stmt{lines: lines, exec: func(en *env) bool {
				m := make([]*big.Int, total)
				for i := range m {
					m[i] = new(big.Int)
				}
				for _, st := range stores {
					v := st.e.eval(en).I
					if st.op != "" {
						v = applyBin(st.op, et, m[st.flat], v)
					}
					m[st.flat] = v
				}
				en.def(res, Val{T: et, I: applyBin("+", et, m[r1], applyBin("^", et, m[r2], m[r3]))})
				return false
			}}
		case 14: // the same assignment guarded by different inner conditions in the two arms of an if/else
			if len(assignable) == 0 || depth <= 0 || g.inLoop > 0 {
				continue
			}
			v := vrt.Pick(g.r, assignable)
			n, t := v.name, v.t
			e1, e2 := g.leaf(t), g.leaf(t)
			c0, c1, c2 := g.expr(Bool, g.cfg.MaxDepth), g.expr(Bool, g.cfg.MaxDepth), g.expr(Bool, g.cfg.MaxDepth)
			withElse := g.r.Bool()
			inner := func(c expr) []string {
				l := []string{"\tif " + c.src + " {", "\t\t" + n + " = " + e1.src}
				if withElse {
					l = append(l, "\t} else {", "\t\t"+n+" = "+e2.src)
				}
				return append(l, "\t}")
			}
			lines := []string{"if " + c0.src + " {"}
			lines = append(lines, inner(c1)...)
			lines = append(lines, "} else {")
			lines = append(lines, inner(c2)...)
			lines = append(lines, "}")
			g.feat["twin-if"] = true
			return stmt{lines: lines, exec: func(en *env) bool {
				c := c2
				if c0.eval(en).I.Sign() != 0 {
					c = c1
				}
				if c.eval(en).I.Sign() != 0 {
					en.get(n).I = e1.eval(en).I
				} else if withElse {
					en.get(n).I = e2.eval(en).I
				}
				return false
			}}
		}
	}
}

// litStorageSign returns what a non-negative literal becomes in a signed type
// wider than its storage (32 bits below 2^32, 64 bits below 2^64) when its top
// storage bit is taken for a sign, or nil when the question does not arise.
func litStorageSign(v *big.Int, t *Type) *big.Int {
	if t.Kind != KInt || v.Sign() < 0 {
		return nil
	}
	storage := 32
	if v.BitLen() > 32 {
		storage = 64
	}
	if v.BitLen() > 64 || t.Bits <= storage || v.Bit(storage-1) == 0 {
		return nil
	}
	return wrap(new(big.Int).Sub(v, new(big.Int).Lsh(big.NewInt(1), uint(storage))), t.Bits)
}

func isBareLiteral(s string) bool {
	for _, c := range s {
		if c < '0' || c > '9' {
			return false
		}
	}
	return true
}

// declareAfter registers a variable in the current scope (expressions of the
// declaring statement were generated before, so they cannot see it).
func (g *gen) declareAfter(v variable) { g.declare(v) }

func (g *gen) ifStmt(depth int, rets []*Type, allowReturn bool) stmt {
	cond := g.expr(Bool, g.cfg.MaxDepth)
	n := g.r.Range(1, max(1, g.cfg.MaxStmts/2))
	early := allowReturn && g.inLoop == 0 && g.r.Intn(4) == 0
	thenB := g.block(n, depth-1, rets, early, allowReturn)
	if early {
		g.feat["early-return"] = true
	}
	var elseIfCond *expr
	var elseIfB, elseB []*stmt
	switch g.r.Intn(4) {
	case 0:
	case 1:
		c2 := g.expr(Bool, g.cfg.MaxDepth)
		elseIfCond = &c2
		elseIfB = g.block(g.r.Range(1, 2), depth-1, rets, false, allowReturn)
		elseB = g.block(g.r.Range(1, 2), depth-1, rets, false, allowReturn)
		g.feat["else-if"] = true
	default:
		early2 := allowReturn && g.inLoop == 0 && !early && g.r.Intn(6) == 0
		elseB = g.block(g.r.Range(1, max(1, g.cfg.MaxStmts/2)), depth-1, rets, early2, allowReturn)
		g.feat["else"] = true
	}
	kids := func() []string {
		lines := []string{"if " + cond.src + " {"}
		lines = append(lines, renderBlock(thenB)...)
		if elseIfCond != nil {
			lines = append(lines, "} else if "+elseIfCond.src+" {")
			lines = append(lines, renderBlock(elseIfB)...)
		}
		if elseB != nil {
			lines = append(lines, "} else {")
			lines = append(lines, renderBlock(elseB)...)
		}
		return append(lines, "}")
	}
	g.feat["if"] = true
	return stmt{kids: kids, exec: func(en *env) bool {
		if cond.eval(en).I.Sign() != 0 {
			return execBlock(en, thenB)
		}
		if elseIfCond != nil && elseIfCond.eval(en).I.Sign() != 0 {
			return execBlock(en, elseIfB)
		}
		if elseB != nil {
			return execBlock(en, elseB)
		}
		return false
	}}
}

func (g *gen) forStmt(depth int, rets []*Type) stmt {
	k := g.r.Range(1, 6)
	// prefer the length of an array in scope so that a[i] walks it
	if arrs := g.varsOf(func(v variable) bool { return v.t.Kind == KArr && v.t.N <= 8 }); len(arrs) > 0 && g.r.Bool() {
		k = vrt.Pick(g.r, arrs).t.N
	}
	iv := g.fresh("i")
	g.push()
	g.declare(variable{name: iv, t: Int(32), ro: true, loop: true, bound: k})
	g.inLoop++
	body := g.block(g.r.Range(1, max(1, g.cfg.MaxStmts/2)), depth-1, rets, false, false)
	g.inLoop--
	g.pop()
	// every third loop is followed by a counting loop whose init clause ASSIGNS
	// a variable of an outer scope (for v = A; v < B; v++ {}), half of them
	// with zero iterations; v is read by whatever follows. The choices come
	// from a side stream derived from the loop itself, not from the
	// generator's stream.
	side := vrt.NewRng(vrt.Hash64("assign-form loop", iv, fmt.Sprint(k, len(body))))
	var extra, mix string
	var extraVar, mixVar string
	var extraVal *big.Int
	if outer := g.varsOf(func(v variable) bool { return v.t.Integer() && v.t.Bits >= 8 && !v.ro && !v.loop }); len(outer) > 1 && side.Intn(3) == 0 {
		v := vrt.Pick(side, outer)
		// the loop leaves a compile-time constant in v; it is mixed with
		// another variable of the same type at once, so that what follows
		// computes on a run-time value (constant folding is C12's subject)
		var same []variable
		for _, u := range outer {
			if u.name != v.name && u.t.Equal(v.t) {
				same = append(same, u)
			}
		}
		if len(same) > 0 {
			u := vrt.Pick(side, same)
			a, b := side.Intn(7), side.Intn(7)
			extra = fmt.Sprintf("for %s = %d; %s < %d; %s++ {", v.name, a, v.name, b, v.name)
			mix = fmt.Sprintf("%s = %s ^ %s", v.name, v.name, u.name)
			extraVar, mixVar, extraVal = v.name, u.name, big.NewInt(int64(max(a, b)))
			g.feat["for-init-assigns-outer-variable"] = true
			if a >= b {
				g.feat["for-with-zero-iterations"] = true
			}
		}
	}
	kids := func() []string {
		lines := []string{fmt.Sprintf("for %s := 0; %s < %d; %s++ {", iv, iv, k, iv)}
		lines = append(lines, renderBlock(body)...)
		lines = append(lines, "}")
		if extra != "" {
			lines = append(lines, extra, "}", mix)
		}
		return lines
	}
	g.feat["for"] = true
	return stmt{kids: kids, exec: func(en *env) bool {
		if extra != "" {
			defer func() {
				if p := en.get(extraVar); p != nil {
					p.I = new(big.Int).Xor(extraVal, en.get(mixVar).I)
				}
			}()
		}
		for i := 0; i < k; i++ {
			en.push()
			en.def(iv, Val{T: Int(32), I: big.NewInt(int64(i))})
			r := execBlock(en, body)
			en.pop()
			if r {
				return true
			}
		}
		return false
	}}
}

// rangeStmt ranges over an array in scope. The array is read-only inside the
// body (whether a store into the ranged array is seen by later iterations is
// anchored by no document); the element variable is a read-only copy.
func (g *gen) rangeStmt(depth int, rets []*Type) (stmt, bool) {
	arrs := g.varsOf(func(v variable) bool { return v.t.Kind == KArr && v.t.N <= 8 && v.t.Elem.Scalar() })
	if len(arrs) == 0 {
		return stmt{}, false
	}
	a := vrt.Pick(g.r, arrs)
	form := g.r.Intn(3) // 0: i, v   1: _, v   2: i
	iv, vv := g.fresh("i"), g.fresh("e")
	g.push()
	g.declare(variable{name: a.name, t: a.t, ro: true})
	if form != 1 {
		g.declare(variable{name: iv, t: Int(32), ro: true, loop: true, bound: a.t.N})
	}
	if form != 2 {
		g.declare(variable{name: vv, t: a.t.Elem, ro: true})
	}
	g.inLoop++
	body := g.block(g.r.Range(1, max(1, g.cfg.MaxStmts/2)), depth-1, rets, false, false)
	g.inLoop--
	g.pop()
	an, n, et := a.name, a.t.N, a.t.Elem
	head := fmt.Sprintf("for %s, %s := range %s {", iv, vv, an)
	switch form {
	case 1:
		head = fmt.Sprintf("for _, %s := range %s {", vv, an)
	case 2:
		head = fmt.Sprintf("for %s := range %s {", iv, an)
	}
	kids := func() []string {
		lines := []string{head}
		lines = append(lines, renderBlock(body)...)
		return append(lines, "}")
	}
	g.feat["for-range"] = true
	_ = et
	return stmt{kids: kids, exec: func(en *env) bool {
		for i := 0; i < n; i++ {
			en.push()
			if form != 1 {
				en.def(iv, Val{T: Int(32), I: big.NewInt(int64(i))})
			}
			if form != 2 {
				en.def(vv, en.get(an).E[i])
			}
			r := execBlock(en, body)
			en.pop()
			if r {
				return true
			}
		}
		return false
	}}, true
}

func (g *gen) newArray(depth int) stmt {
	et := g.intType()
	if g.r.Intn(3) == 0 {
		et = Uint(8)
	}
	n := g.r.Range(2, 8)
	if len(g.arrT) > 0 && g.r.Bool() {
		pt := vrt.Pick(g.r, g.arrT)
		et, n = pt.Elem, pt.N
	}
	name := g.fresh("a")
	iv := g.fresh("i")
	g.push()
	g.declare(variable{name: iv, t: Int(32), ro: true, loop: true, bound: n})
	g.inLoop++
	e := g.expr(et, depth)
	g.inLoop--
	g.pop()
	at := Arr(n, et)
	g.declareAfter(variable{name: name, t: at})
	g.feat["array-var"] = true
	lines := []string{fmt.Sprintf("var %s %s", name, at.Src()), fmt.Sprintf("for %s := 0; %s < %d; %s++ {", iv, iv, n, iv), fmt.Sprintf("\t%s[%s] = %s", name, iv, e.src), "}"}
	return stmt{lines: lines, exec: func(en *env) bool {
		v := Zero(at)
		en.def(name, v)
		for i := 0; i < n; i++ {
			en.push()
			en.def(iv, Val{T: Int(32), I: big.NewInt(int64(i))})
			en.get(name).E[i] = e.eval(en)
			en.pop()
		}
		return false
	}}
}

func (g *gen) multiCall(depth int) (stmt, bool) {
	var cands []*function
	for _, f := range g.funcs {
		if len(f.results) > 1 || !f.results[0].Scalar() {
			cands = append(cands, f)
		}
	}
	if len(cands) == 0 {
		return stmt{}, false
	}
	f := vrt.Pick(g.r, cands)
	var args []expr
	var srcs []string
	for _, p := range f.params {
		a, ok := g.argFor(p.t, depth)
		if !ok {
			return stmt{}, false
		}
		args = append(args, a)
		srcs = append(srcs, a.src)
	}
	var names []string
	for _, t := range f.results {
		n := g.fresh("v")
		names = append(names, n)
		g.declareAfter(variable{name: n, t: t})
	}
	for _, t := range f.results {
		if !t.Scalar() {
			g.feat["compound-result"] = true
		}
	}
	g.feat["multi-result-call"] = true
	return stmt{lines: []string{fmt.Sprintf("%s := %s(%s)", strings.Join(names, ", "), f.name, strings.Join(srcs, ", "))}, exec: func(en *env) bool {
		var vals []Val
		for _, a := range args {
			vals = append(vals, a.eval(en))
		}
		res := callFnEnv(f, vals, &env{flat: en.flat, litSext: en.litSext})
		for i, n := range names {
			en.def(n, res[i])
		}
		return false
	}}, true
}

// Generate builds a program.
func Generate(r *vrt.Rng, cfg Config) *Program {
	if len(cfg.Widths) == 0 {
		cfg.Widths = DefaultWidths
	}
	if cfg.MaxStmts == 0 {
		cfg.MaxStmts = 5
	}
	if cfg.MaxDepth == 0 {
		cfg.MaxDepth = 3
	}
	if cfg.Args == 0 {
		cfg.Args = 2
	}
	g := &gen{r: r, cfg: cfg, feat: map[string]bool{}, fmap: map[string]*function{}}
	// struct types
	if cfg.Structs {
		for i := g.r.Intn(3); i > 0; i-- {
			st := &Type{Kind: KStruct, Name: fmt.Sprintf("S%d", len(g.types))}
			for f := g.r.Range(1, 4); f > 0; f-- {
				ft := g.scalarType()
				if cfg.Arrays && g.r.Intn(4) == 0 {
					ft = Arr(g.r.Range(2, 4), Uint(vrt.Pick(g.r, []int{8, 16, 5})))
					if cfg.TextArrays {
						ft = Arr(g.r.Range(2, 4), Uint(vrt.Pick(g.r, []int{8, 16})))
					}
				}
				st.Fields = append(st.Fields, Field{Name: fmt.Sprintf("f%d", len(st.Fields)), T: ft})
			}
			g.types = append(g.types, st)
		}
	}
	if cfg.Arrays {
		for i := g.r.Range(1, 2); i > 0; i-- {
			et := vrt.Pick(g.r, []*Type{Uint(8), Uint(8), g.intType()})
			if cfg.TextArrays {
				et = vrt.Pick(g.r, []*Type{Uint(8), Uint(16), Int(16), Uint(32)})
			}
			g.arrT = append(g.arrT, Arr(g.r.Range(2, 5), et))
		}
	}
	sig := func(name string, ps, rs []string) string {
		rsig := rs[0]
		if len(rs) > 1 {
			rsig = "(" + strings.Join(rs, ", ") + ")"
		}
		return fmt.Sprintf("func %s(%s) %s {", name, strings.Join(ps, ", "), rsig)
	}
	// helper functions (generated first so that later code can call them)
	if cfg.Funcs {
		for i := g.r.Intn(4); i > 0; i-- {
			f := &function{name: fmt.Sprintf("f%d", len(g.funcs))}
			g.scopes = nil
			g.push()
			var ps []string
			for p := g.r.Range(1, 3); p > 0; p-- {
				v := variable{name: g.fresh("p"), t: g.scalarType()}
				if len(f.params) == 0 {
					v.t = g.intType() // at least one integer to build non-constant expressions from
				} else if k := g.r.Intn(5); k == 0 && len(g.arrT) > 0 {
					v.t = vrt.Pick(g.r, g.arrT) // arrays and structs are passed by value
				} else if k == 1 && len(g.types) > 0 {
					v.t = vrt.Pick(g.r, g.types)
				}
				f.params = append(f.params, v)
				g.declare(v)
				ps = append(ps, v.name+" "+v.t.Src())
			}
			var rs []string
			for q := g.r.Range(1, 3); q > 0; q-- {
				t := g.scalarType()
				// a compound result: the (possibly modified) parameter of that type
				if comp := g.varsOf(func(v variable) bool { return !v.t.Scalar() }); len(comp) > 0 && g.r.Intn(3) == 0 {
					t = vrt.Pick(g.r, comp).t
				}
				f.results = append(f.results, t)
				rs = append(rs, t.Src())
			}
			f.body = g.block(g.r.Range(0, cfg.MaxStmts), 2, f.results, true, true)
			g.pop()
			f.sig = sig(f.name, ps, rs)
			g.funcs = append(g.funcs, f)
		}
	}
	// main
	m := &function{name: "main"}
	g.scopes = nil
	g.push()
	var ps []string
	p := &Program{Feat: g.feat}
	for i := 0; i < cfg.Args; i++ {
		var t *Type
		switch k := g.r.Intn(6); {
		case cfg.ScalarArgs || i == 0:
			t = g.intType()
		case k == 0 && cfg.Arrays:
			t = Arr(g.r.Range(2, 6), vrt.Pick(g.r, []*Type{Uint(8), Uint(8), g.intType()}))
			if cfg.TextArrays {
				t = Arr(g.r.Range(2, 6), vrt.Pick(g.r, []*Type{Uint(8), Uint(8), Uint(16), Int(16), Uint(32), Int(64)}))
			}
			if len(g.arrT) > 0 && g.r.Intn(3) != 0 {
				t = vrt.Pick(g.r, g.arrT)
			}
		case k == 1 && cfg.Structs && len(g.types) > 0:
			t = vrt.Pick(g.r, g.types)
		case k == 2:
			t = Bool
		default:
			t = g.intType()
		}
		v := variable{name: fmt.Sprintf("in%d", i), t: t}
		m.params = append(m.params, v)
		g.declare(v)
		ps = append(ps, v.name+" "+t.Src())
		p.ArgT = append(p.ArgT, t)
		p.ArgN = append(p.ArgN, v.name)
	}
	nret := g.r.Range(1, 3)
	var rs []string
	for i := 0; i < nret; i++ {
		t := g.scalarType()
		// sometimes return an array that is in scope (an argument)
		if arrs := g.varsOf(func(v variable) bool { return v.t.Kind == KArr && v.t.N < 100 }); len(arrs) > 0 && g.r.Intn(4) == 0 {
			t = vrt.Pick(g.r, arrs).t
		}
		m.results = append(m.results, t)
		rs = append(rs, t.Src())
	}
	p.RetT = m.results
	nst := g.r.Range(1, cfg.MaxStmts+2)
	m.body = g.block(nst, 2, m.results, true, true)
	g.pop()
	m.sig = sig("main", ps, rs)
	// package-level names shadowed by main's parameters: a constant or a variable
	// with the name of a scalar parameter; main must keep reading its own parameter
	if g.r.Intn(3) == 0 {
		for _, v := range m.params {
			if !v.t.Integer() || g.r.Bool() {
				continue
			}
			l := g.lit(v.t)
			if g.r.Bool() {
				p.globals = append(p.globals, fmt.Sprintf("const %s = %s", v.name, l.src))
			} else {
				p.globals = append(p.globals, fmt.Sprintf("var %s %s = %s", v.name, v.t.Src(), l.src))
			}
			g.feat["package-level-name-shadowed-by-parameter"] = true
		}
	}
	p.mainFn = m
	p.helpers = g.funcs
	p.structs = g.types
	p.all = g.all
	p.Src = p.Render()
	return p
}

// Render rebuilds the source text from the (possibly minimised) tree.
func (p *Program) Render() string {
	var sb strings.Builder
	sb.WriteString("package main\n\n")
	for _, st := range p.structs {
		fmt.Fprintf(&sb, "type %s struct {\n", st.Name)
		for _, f := range st.Fields {
			fmt.Fprintf(&sb, "\t%s %s\n", f.Name, f.T.Src())
		}
		sb.WriteString("}\n\n")
	}
	for _, gl := range p.globals {
		sb.WriteString(gl + "\n")
	}
	if len(p.globals) > 0 {
		sb.WriteString("\n")
	}
	fn := func(f *function) {
		sb.WriteString(f.sig + "\n")
		for _, l := range renderBlock(f.body) {
			sb.WriteString(l + "\n")
		}
		sb.WriteString("}\n")
	}
	fn(p.mainFn)
	for _, f := range p.helpers {
		if !f.dead {
			sb.WriteString("\n")
			fn(f)
		}
	}
	return sb.String()
}

// Minimise greedily removes statements and helper functions while keep()
// still holds for the re-rendered program (keep must re-check that the
// program compiles and still shows the behaviour of interest).
func (p *Program) Minimise(keep func(src string) bool) {
	for changed := true; changed; {
		changed = false
		for i := len(p.all) - 1; i >= 0; i-- {
			s := p.all[i]
			if s.dead {
				continue
			}
			s.dead = true
			if keep(p.Render()) {
				changed = true
			} else {
				s.dead = false
			}
		}
		for _, f := range p.helpers {
			if f.dead {
				continue
			}
			f.dead = true
			if keep(p.Render()) {
				changed = true
			} else {
				f.dead = false
			}
		}
	}
	p.Src = p.Render()
}

// RunFlat executes the program under the alternate semantics in which an
// inner `var x` of an existing name assigns the outer variable.
func (p *Program) RunFlat(args []Val) ([]Val, error) { return p.run(args, true) }

// Run executes the reference semantics.
func (p *Program) Run(args []Val) ([]Val, error) { return p.run(args, false) }

// RunLitSext executes the program under the alternate semantics in which a
// literal assigned in a branch to a signed variable wider than the literal's
// storage is sign-extended from that storage width.
func (p *Program) RunLitSext(args []Val) (res []Val, err error) {
	defer func() {
		if r := recover(); r != nil {
			err = fmt.Errorf("interpreter: %v", r)
		}
	}()
	return callFnEnv(p.mainFn, args, &env{litSext: true}), nil
}

func (p *Program) run(args []Val, flat bool) (res []Val, err error) {
	defer func() {
		if r := recover(); r != nil {
			err = fmt.Errorf("interpreter: %v", r)
		}
	}()
	return callFn(p.mainFn, args, flat), nil
}
