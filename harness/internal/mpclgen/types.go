// Package mpclgen generates MPCL programs together with an executable
// reference semantics (math/big, fixed-width wrapping) for them. The grammar
// is restricted to constructs whose meaning the repository's documentation
// and annotated test programs fix (see DESIGN.md §3.5).
package mpclgen

import (
	"fmt"
	"math/big"
	"strings"
)

// Kind of a type.
type Kind int

// Kinds.
const (
	KBool Kind = iota
	KInt
	KUint
	KArr
	KStruct
)

// Type is an MPCL type of the generated subset.
type Type struct {
	Kind   Kind
	Bits   int // scalar width
	Elem   *Type
	N      int
	Name   string // struct type name
	Fields []Field
}

// Field of a struct.
type Field struct {
	Name string
	T    *Type
}

// Bool type.
var Bool = &Type{Kind: KBool, Bits: 1}

// Int returns intN.
func Int(n int) *Type { return &Type{Kind: KInt, Bits: n} }

// Uint returns uintN.
func Uint(n int) *Type { return &Type{Kind: KUint, Bits: n} }

// Arr returns [n]elem.
func Arr(n int, elem *Type) *Type { return &Type{Kind: KArr, N: n, Elem: elem} }

// Src renders the type.
func (t *Type) Src() string {
	switch t.Kind {
	case KBool:
		return "bool"
	case KInt:
		return fmt.Sprintf("int%d", t.Bits)
	case KUint:
		return fmt.Sprintf("uint%d", t.Bits)
	case KArr:
		return fmt.Sprintf("[%d]%s", t.N, t.Elem.Src())
	default:
		return t.Name
	}
}

// Width is the number of wires of a value.
func (t *Type) Width() int {
	switch t.Kind {
	case KArr:
		return t.N * t.Elem.Width()
	case KStruct:
		w := 0
		for _, f := range t.Fields {
			w += f.T.Width()
		}
		return w
	default:
		return t.Bits
	}
}

// Scalar tells whether t is bool/int/uint.
func (t *Type) Scalar() bool { return t.Kind <= KUint }

// Integer tells whether t is int/uint.
func (t *Type) Integer() bool { return t.Kind == KInt || t.Kind == KUint }

// Equal compares types structurally (structs by name).
func (t *Type) Equal(o *Type) bool {
	if t.Kind != o.Kind {
		return false
	}
	switch t.Kind {
	case KArr:
		return t.N == o.N && t.Elem.Equal(o.Elem)
	case KStruct:
		return t.Name == o.Name
	default:
		return t.Bits == o.Bits
	}
}

// Val is a runtime value: scalars hold the unsigned representation mod 2^Bits.
type Val struct {
	T *Type
	I *big.Int
	E []Val // array elements / struct fields
}

// Zero value of a type.
func Zero(t *Type) Val {
	v := Val{T: t}
	switch t.Kind {
	case KArr:
		for i := 0; i < t.N; i++ {
			v.E = append(v.E, Zero(t.Elem))
		}
	case KStruct:
		for _, f := range t.Fields {
			v.E = append(v.E, Zero(f.T))
		}
	default:
		v.I = new(big.Int)
	}
	return v
}

// Clone deep-copies a value.
func (v Val) Clone() Val {
	c := Val{T: v.T}
	if v.I != nil {
		c.I = new(big.Int).Set(v.I)
	}
	for _, e := range v.E {
		c.E = append(c.E, e.Clone())
	}
	return c
}

// Flat returns the value's wires as one integer (bit i = wire i).
func (v Val) Flat() *big.Int {
	r := new(big.Int)
	off := 0
	var walk func(x Val)
	walk = func(x Val) {
		if x.T.Scalar() {
			r.Or(r, new(big.Int).Lsh(x.I, uint(off)))
			off += x.T.Bits
			return
		}
		for _, e := range x.E {
			walk(e)
		}
	}
	walk(v)
	return r
}

// FromFlat builds a value of type t from wires.
func FromFlat(t *Type, flat *big.Int) Val {
	off := 0
	var mk func(t *Type) Val
	mk = func(t *Type) Val {
		v := Val{T: t}
		switch t.Kind {
		case KArr:
			for i := 0; i < t.N; i++ {
				v.E = append(v.E, mk(t.Elem))
			}
		case KStruct:
			for _, f := range t.Fields {
				v.E = append(v.E, mk(f.T))
			}
		default:
			x := new(big.Int).Rsh(flat, uint(off))
			v.I = x.And(x, mask(t.Bits))
			off += t.Bits
		}
		return v
	}
	return mk(t)
}

// Leaves lists the scalar leaves of a type in wire order.
func (t *Type) Leaves() []*Type {
	if t.Scalar() {
		return []*Type{t}
	}
	var out []*Type
	if t.Kind == KArr {
		for i := 0; i < t.N; i++ {
			out = append(out, t.Elem.Leaves()...)
		}
		return out
	}
	for _, f := range t.Fields {
		out = append(out, f.T.Leaves()...)
	}
	return out
}

func mask(bits int) *big.Int {
	return new(big.Int).Sub(new(big.Int).Lsh(big.NewInt(1), uint(bits)), big.NewInt(1))
}

func wrap(v *big.Int, bits int) *big.Int {
	r := new(big.Int).And(v, mask(bits))
	if v.Sign() < 0 {
		r = new(big.Int).Mod(v, new(big.Int).Lsh(big.NewInt(1), uint(bits)))
	}
	return r
}

// signed interprets the unsigned representation as two's complement.
func signed(v *big.Int, bits int) *big.Int {
	if v.Bit(bits-1) == 1 {
		return new(big.Int).Sub(v, new(big.Int).Lsh(big.NewInt(1), uint(bits)))
	}
	return new(big.Int).Set(v)
}

// String renders a value for replay files.
func (v Val) String() string {
	if v.T.Scalar() {
		if v.T.Kind == KInt {
			return signed(v.I, v.T.Bits).String()
		}
		return v.I.String()
	}
	var p []string
	for _, e := range v.E {
		p = append(p, e.String())
	}
	return "{" + strings.Join(p, " ") + "}"
}
