package vrt

import (
	"bufio"
	"bytes"
	"encoding/json"
	"fmt"
	"os"
	"os/exec"
	"path/filepath"
	"regexp"
	"runtime"
	"runtime/pprof"
	"sort"
	"strconv"
	"strings"
	"sync"
	"time"
)

// Root is the /verif directory.
var Root = func() string {
	if r := os.Getenv("VERIF_ROOT"); r != "" {
		return r
	}
	// <root>/bin/vcheck: a snapshot of /verif run elsewhere keeps to itself
	if exe, err := os.Executable(); err == nil {
		if d := filepath.Dir(exe); filepath.Base(d) == "bin" {
			return filepath.Dir(d)
		}
	}
	return "/verif"
}()

// Seed returns VERIF_SEED (default 1).
func Seed() uint64 {
	if s := os.Getenv("VERIF_SEED"); s != "" {
		if v, err := strconv.ParseUint(s, 10, 64); err == nil {
			return v
		}
		if v, err := strconv.ParseInt(s, 10, 64); err == nil {
			return uint64(v)
		}
	}
	return 1
}

type line struct {
	T    string `json:"t"`
	Idx  int    `json:"idx"`
	Case *Case  `json:"case,omitempty"`
	Msg  string `json:"msg,omitempty"`
}

// WorkerMain runs the cases idx ≡ shard (mod of), idx > after, writing one
// JSON line before and one after each case.
func WorkerMain(p *Prop, tier string, seed uint64, shard, of, after int, out string) int {
	f, err := os.OpenFile(out, os.O_APPEND|os.O_CREATE|os.O_WRONLY, 0o644)
	if err != nil {
		fmt.Fprintln(os.Stderr, err)
		return 4
	}
	defer f.Close()
	enc := func(l line) {
		b, _ := json.Marshal(l)
		f.Write(append(b, '\n'))
	}
	n := p.NumCases(tier)
	to := p.CaseTimeout
	if to == 0 {
		to = 5 * time.Minute
	}
	for idx := shard; idx < n; idx += of {
		if idx <= after {
			continue
		}
		enc(line{T: "start", Idx: idx})
		c := NewCase(p.ID, tier, seed, idx)
		done := make(chan *PanicInfo, 1)
		go func() { done <- Guard(func() { p.Run(c) }) }()
		select {
		case pi := <-done:
			if pi != nil {
				// A panic that escaped the monitor's own guards.
				if pi.InMPC {
					c.Violate("panic|"+pi.Frame, "panic in code under test: "+pi.Value,
						map[string]any{"stack": trimStack(pi.Stack)})
				} else {
					c.Inconc("harness panic: " + pi.Value + " at " + pi.Frame + "\n" + trimStack(pi.Stack))
				}
			}
			enc(line{T: "end", Idx: idx, Case: c})
		case <-time.After(to):
			var buf bytes.Buffer
			pprof.Lookup("goroutine").WriteTo(&buf, 2)
			enc(line{T: "hang", Idx: idx, Msg: buf.String()})
			fmt.Fprintf(os.Stderr, "watchdog: case %d exceeded %v\n", idx, to)
			return 3
		}
	}
	enc(line{T: "done", Idx: -1})
	return 0
}

func trimStack(s string) string {
	if len(s) > 6000 {
		return s[:6000] + "\n…"
	}
	return s
}

// RunOne runs a single case in-process (replay).
func RunOne(p *Prop, tier string, seed uint64, idx int) *Case {
	c := NewCase(p.ID, tier, seed, idx)
	if pi := Guard(func() { p.Run(c) }); pi != nil {
		if pi.InMPC {
			c.Violate("panic|"+pi.Frame, "panic in code under test: "+pi.Value,
				map[string]any{"stack": trimStack(pi.Stack)})
		} else {
			c.Inconc("harness panic: " + pi.Value + "\n" + trimStack(pi.Stack))
		}
	}
	return c
}

var raceRe = regexp.MustCompile(`(?m)^WARNING: DATA RACE`)

// Drive runs a property's tier with worker processes and writes evidence.
// Returns the process exit code.
func Drive(p *Prop, tier string) int {
	t0 := time.Now()
	seed := Seed()
	n := p.NumCases(tier)
	workers := runtime.NumCPU()
	if p.MaxWorkers > 0 && p.MaxWorkers < workers {
		workers = p.MaxWorkers
	}
	if w := os.Getenv("VERIF_WORKERS"); w != "" {
		if v, err := strconv.Atoi(w); err == nil && v > 0 {
			workers = v
		}
	}
	if workers > n {
		workers = n
	}
	if workers < 1 {
		workers = 1
	}
	race := p.Race != nil && p.Race(tier)
	self := filepath.Join(Root, "bin", "vcheck")
	if race {
		self = filepath.Join(Root, "bin", "vcheck-race")
	}
	work := filepath.Join(Root, "evidence", ".work", p.ID)
	os.RemoveAll(work)
	os.MkdirAll(work, 0o755)

	agg := &Agg{Keys: map[uint64]struct{}{}, Counters: map[string]int64{}, Sets: map[string]map[string]bool{}}
	var mu sync.Mutex
	merge := func(c *Case) {
		mu.Lock()
		defer mu.Unlock()
		agg.Cases++
		agg.Evals += c.Evals
		for _, k := range c.Keys {
			agg.Keys[k] = struct{}{}
		}
		for k, v := range c.Counters {
			agg.Counters[k] += v
		}
		for s, m := range c.Sets {
			if agg.Sets[s] == nil {
				agg.Sets[s] = map[string]bool{}
			}
			for k := range m {
				agg.Sets[s][k] = true
			}
		}
		for _, v := range c.Violations {
			agg.Violations = append(agg.Violations, CaseViolation{v, c.Idx})
		}
		for _, s := range c.Inconclusive {
			agg.Inconclusive = append(agg.Inconclusive, fmt.Sprintf("case %d: %s", c.Idx, s))
		}
		if c.Sample != nil && len(agg.Samples) < 6 {
			agg.Samples = append(agg.Samples, c.Sample)
		}
	}

	var wg sync.WaitGroup
	for w := 0; w < workers; w++ {
		wg.Add(1)
		go func(shard int) {
			defer wg.Done()
			after := -1
			for attempt := 0; attempt < 200; attempt++ {
				out := filepath.Join(work, fmt.Sprintf("w%d.%d.jsonl", shard, attempt))
				errf := filepath.Join(work, fmt.Sprintf("w%d.%d.err", shard, attempt))
				ef, _ := os.Create(errf)
				cmd := exec.Command(self, "worker", p.ID, "--tier", tier, "--seed", fmt.Sprint(seed),
					"--shard", fmt.Sprint(shard), "--of", fmt.Sprint(workers), "--after", fmt.Sprint(after), "--out", out)
				cmd.Stdout = ef
				cmd.Stderr = ef
				// the number of Ps is part of the environment the code under test
				// may depend on (work split over GOMAXPROCS goroutines, per-P
				// pools): workers run with different counts, fixed per shard
				procs := max(2, 2*runtime.NumCPU()/workers)
				if !race {
					procs = []int{procs, 3, procs, 5, procs, 6, 1, 7}[shard%8]
				}
				cmd.Env = append(os.Environ(), "GOMAXPROCS="+fmt.Sprint(procs))
				if race {
					cmd.Env = append(cmd.Env, "GORACE=halt_on_error=0 log_path="+filepath.Join(work, fmt.Sprintf("race.w%d.%d", shard, attempt)))
				}
				err := cmd.Run()
				ef.Close()
				started, finished, hang, hangMsg := -1, false, false, ""
				if fh, e := os.Open(out); e == nil {
					sc := bufio.NewScanner(fh)
					sc.Buffer(make([]byte, 1<<20), 1<<30)
					for sc.Scan() {
						var l line
						if json.Unmarshal(sc.Bytes(), &l) != nil {
							continue
						}
						switch l.T {
						case "start":
							started = l.Idx
						case "end":
							if l.Case != nil {
								merge(l.Case)
							}
							after = l.Idx
							started = -1
						case "hang":
							hang, hangMsg = true, l.Msg
						case "done":
							finished = true
						}
					}
					fh.Close()
				}
				if finished && err == nil {
					return
				}
				stderr, _ := os.ReadFile(errf)
				if started < 0 {
					// died outside a case: broken run
					mu.Lock()
					agg.Inconclusive = append(agg.Inconclusive, fmt.Sprintf("worker %d died outside a case: %v\n%s", shard, err, tail(string(stderr), 2000)))
					mu.Unlock()
					return
				}
				c := NewCase(p.ID, tier, seed, started)
				c.Counters["worker_deaths"] = 1
				if hang {
					key, what := "", ""
					if p.HangVerdict != nil {
						key, what = p.HangVerdict(started, hangMsg)
					}
					if key != "" {
						c.Violate(key, what, map[string]any{"stacks": tail(hangMsg, 8000)})
					} else {
						c.Inconc("watchdog fired\n" + tail(hangMsg, 3000))
					}
				} else {
					frame, inMPC := ClassifyStack(string(stderr))
					switch {
					case inMPC || strings.Contains(string(stderr), "fatal error:") && !strings.Contains(string(stderr), "verifharness/internal/props"):
						key, what := "crash|"+frame, "process-fatal crash in code under test: "+firstLine(string(stderr))
						if p.CrashVerdict != nil {
							key, what = p.CrashVerdict(started, string(stderr))
						}
						if key != "" {
							c.Violate(key, what, map[string]any{"stderr": tail(string(stderr), 8000)})
						} else {
							c.Count("allowed_crashes", 1)
						}
					default:
						c.Inconc("worker died in harness code: " + tail(string(stderr), 3000))
					}
				}
				merge(c)
				after = started
			}
		}(w)
	}
	wg.Wait()

	// race reports
	raceReports := 0
	var raceTexts []string
	if race {
		files, _ := filepath.Glob(filepath.Join(work, "race.*"))
		for _, f := range files {
			b, _ := os.ReadFile(f)
			for _, blk := range splitRace(string(b)) {
				raceReports++
				raceTexts = append(raceTexts, blk)
			}
		}
		agg.Counters["race_reports"] = int64(raceReports)
		if RaceFilter != nil {
			for _, blk := range raceTexts {
				if key, what := RaceFilter(p.ID, blk); key != "" {
					agg.Violations = append(agg.Violations, CaseViolation{Violation{Key: key, What: what,
						Detail: map[string]any{"report": tail(blk, 6000)}}, -1})
				} else {
					agg.Counters["race_reports_outside_property"]++
				}
			}
		}
	}

	return finish(p, tier, seed, n, agg, time.Since(t0))
}

// RaceFilter maps a race-detector report to a violation key ("" = not about
// this property). Installed by the props package.
var RaceFilter func(prop, report string) (key, what string)

func splitRace(s string) []string {
	idx := raceRe.FindAllStringIndex(s, -1)
	var out []string
	for i, m := range idx {
		end := len(s)
		if i+1 < len(idx) {
			end = idx[i+1][0]
		}
		out = append(out, s[m[0]:end])
	}
	return out
}

func tail(s string, n int) string {
	if len(s) > n {
		return "…" + s[len(s)-n:]
	}
	return s
}

func firstLine(s string) string {
	for _, l := range strings.Split(s, "\n") {
		if strings.HasPrefix(l, "panic:") || strings.HasPrefix(l, "fatal error:") {
			return l
		}
	}
	if i := strings.IndexByte(s, '\n'); i > 0 {
		return s[:i]
	}
	return s
}

// Finding is an entry of known_findings.json.
type Finding struct {
	Property string `json:"property"`
	Key      string `json:"key"`
	Status   string `json:"status"` // known | fixed
	What     string `json:"what"`
	Commit   string `json:"commit,omitempty"`
}

// LoadFindings reads the committed known-findings file.
func LoadFindings() []Finding {
	var doc struct {
		Findings []Finding `json:"findings"`
	}
	b, err := os.ReadFile(filepath.Join(Root, "known_findings.json"))
	if err != nil {
		return nil
	}
	json.Unmarshal(b, &doc)
	return doc.Findings
}

func finish(p *Prop, tier string, seed uint64, n int, agg *Agg, wall time.Duration) int {
	known := map[string]Finding{}
	for _, f := range LoadFindings() {
		if f.Property == p.ID && f.Status == "known" {
			known[f.Key] = f
		}
	}
	knownSeen := map[string]int{}
	type vio struct {
		CaseViolation
		n int
	}
	unknown := map[string]*vio{}
	var order []string
	for _, v := range agg.Violations {
		if _, ok := known[v.Key]; ok {
			knownSeen[v.Key]++
			continue
		}
		if u := unknown[v.Key]; u != nil {
			u.n++
			continue
		}
		unknown[v.Key] = &vio{v, 1}
		order = append(order, v.Key)
	}
	sort.Strings(order)

	exit := 0
	var keys []string
	for k := range known {
		keys = append(keys, k)
	}
	sort.Strings(keys)
	for _, k := range keys {
		fmt.Printf("KNOWN-FINDING: property=%s %s [key=%s; witnessed %d× in this run]\n", p.ID, known[k].What, k, knownSeen[k])
	}
	rdir := filepath.Join(Root, "replays", p.ID)
	for i, k := range order {
		u := unknown[k]
		os.MkdirAll(rdir, 0o755)
		path := filepath.Join(rdir, fmt.Sprintf("%s-seed%d-case%d-%d.json", tier, seed, u.Idx, i))
		b, _ := json.MarshalIndent(map[string]any{"property": p.ID, "tier": tier, "seed": seed, "idx": u.Idx,
			"key": u.Key, "what": u.What, "detail": u.Detail, "occurrences": u.n}, "", " ")
		os.WriteFile(path, b, 0o644)
		if i < 40 {
			fmt.Printf("VIOLATION property=%s replay=%s\n", p.ID, path)
			fmt.Printf("  key=%s (%d×): %s\n", u.Key, u.n, u.What)
		}
		exit = 1
	}

	minNT := p.MinNontrivial
	if minNT == 0 {
		minNT = 2
	}
	var broken []string
	if len(agg.Keys) < minNT {
		broken = append(broken, fmt.Sprintf("observed only %d distinct non-trivial cases (need %d)", len(agg.Keys), minNT))
	}
	if agg.Cases < n {
		broken = append(broken, fmt.Sprintf("only %d of %d cases reported", agg.Cases, n))
	}
	if p.Finalize != nil {
		if err := p.Finalize(agg); err != nil {
			broken = append(broken, err.Error())
		}
	}
	if len(agg.Inconclusive)*50 > n && len(agg.Inconclusive) > 0 {
		broken = append(broken, fmt.Sprintf("%d of %d cases inconclusive", len(agg.Inconclusive), n))
	}

	cov := map[string]any{
		"evaluations":         agg.Evals,
		"distinct_nontrivial": len(agg.Keys),
		"rule":                p.Rule,
		"samples":             agg.Samples,
		"cases":               agg.Cases,
		"inconclusive":        len(agg.Inconclusive),
		"counters":            agg.Counters,
		"known_findings_seen": knownSeen,
	}
	if len(agg.Samples) == 0 {
		cov["samples"] = []any{"(no sample recorded)"}
	}
	sets := map[string]any{}
	for s := range agg.Sets {
		m := agg.SortedSet(s)
		if len(m) > 400 {
			sets[s] = map[string]any{"count": len(m), "first": m[:400]}
		} else {
			sets[s] = map[string]any{"count": len(m), "members": m}
		}
	}
	cov["observed_sets"] = sets
	if len(agg.Inconclusive) > 0 {
		k := agg.Inconclusive
		if len(k) > 5 {
			k = k[:5]
		}
		cov["inconclusive_examples"] = k
	}
	if len(broken) > 0 {
		cov["broken_run"] = broken
	}
	assume := p.Assumptions
	if assume == nil {
		assume = []string{}
	}
	ev := map[string]any{
		"property_id": p.ID, "tier": tier, "seed": int64(seed), "level": p.Level,
		"coverage": cov, "assumptions": assume,
		"wall_s":     float64(int(wall.Seconds()*10)) / 10,
		"violations": len(order),
	}
	b, _ := json.MarshalIndent(ev, "", " ")
	os.MkdirAll(filepath.Join(Root, "evidence"), 0o755)
	os.WriteFile(filepath.Join(Root, "evidence", p.ID+".json"), append(b, '\n'), 0o644)

	fmt.Printf("%s %s seed=%d: cases=%d evaluations=%d distinct_nontrivial=%d violations=%d known=%d inconclusive=%d wall=%.1fs\n",
		p.ID, tier, seed, agg.Cases, agg.Evals, len(agg.Keys), len(order), len(knownSeen), len(agg.Inconclusive), wall.Seconds())
	if exit == 0 && len(broken) > 0 {
		for _, bmsg := range broken {
			fmt.Printf("BROKEN-RUN: %s\n", bmsg)
		}
		for i, s := range agg.Inconclusive {
			if i < 3 {
				fmt.Printf("  inconclusive: %s\n", tail(s, 1500))
			}
		}
		return 2
	}
	return exit
}
