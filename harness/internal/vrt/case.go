package vrt

import (
	"fmt"
	"os"
	"path/filepath"
	"runtime/debug"
	"sort"
	"strings"
	"sync"
	"time"
)

// Violation is one witness that a property does not hold.
type Violation struct {
	// Key classifies the witness; known findings are matched on it.
	Key string `json:"key"`
	// What is a one-line human description.
	What string `json:"what"`
	// Detail carries whatever replays/explains the witness.
	Detail map[string]any `json:"detail,omitempty"`
}

// Case is one unit of work of a property and collects what its monitor saw.
type Case struct {
	Prop string `json:"prop"`
	Idx  int    `json:"idx"`
	Tier string `json:"tier"`
	Seed uint64 `json:"seed"`
	Rng  *Rng   `json:"-"`

	Evals        int64                      `json:"evals"`
	Keys         []uint64                   `json:"keys,omitempty"`
	Counters     map[string]int64           `json:"counters,omitempty"`
	Sets         map[string]map[string]bool `json:"sets,omitempty"`
	Violations   []Violation                `json:"violations,omitempty"`
	Inconclusive []string                   `json:"inconclusive,omitempty"`
	Sample       any                        `json:"sample,omitempty"`
}

// NewCase builds the case with its derived PRNG.
func NewCase(prop, tier string, seed uint64, idx int) *Case {
	return &Case{Prop: prop, Idx: idx, Tier: tier, Seed: seed,
		Rng:      Derive(seed, prop+"/"+tier, idx),
		Counters: map[string]int64{}, Sets: map[string]map[string]bool{}}
}

// Thorough tells whether the thorough tier runs.
func (c *Case) Thorough() bool { return c.Tier == "thorough" }

// Count adds to a named reach counter.
func (c *Case) Count(name string, n int64) { c.Counters[name] += n }

// Seen records a member of a named set of distinct observations.
func (c *Case) Seen(set, member string) {
	m := c.Sets[set]
	if m == nil {
		m = map[string]bool{}
		c.Sets[set] = m
	}
	m[member] = true
}

// Key records one distinct non-trivial case key.
func (c *Case) Key(parts ...string) { c.Keys = append(c.Keys, Hash64(parts...)) }

// Violate records a violation (at most 50 are kept per case).
func (c *Case) Violate(key, what string, detail map[string]any) {
	c.Counters["violations_raw"]++
	if len(c.Violations) >= 50 {
		return
	}
	for _, v := range c.Violations {
		if v.Key == key && len(c.Violations) >= 5 {
			// keep at most a few witnesses per key and case
			n := 0
			for _, w := range c.Violations {
				if w.Key == key {
					n++
				}
			}
			if n >= 3 {
				return
			}
			break
		}
	}
	c.Violations = append(c.Violations, Violation{Key: key, What: what, Detail: detail})
}

// Inconc records an inconclusive observation.
func (c *Case) Inconc(why string) { c.Inconclusive = append(c.Inconclusive, why) }

// SetSample stores a sample of what this case looked like (first one wins).
func (c *Case) SetSample(s any) {
	if c.Sample == nil {
		c.Sample = s
	}
}

// PanicInfo describes a recovered panic.
type PanicInfo struct {
	Value string
	Stack string
	// InMPC is true when the panicking frame (first non-runtime frame) is in
	// the code under test; false when it is in the harness.
	InMPC bool
	// Frame is the first non-runtime frame.
	Frame string
}

// Guard runs f and converts a panic into a PanicInfo.
func Guard(f func()) (pi *PanicInfo) {
	defer func() {
		if r := recover(); r != nil {
			st := string(debug.Stack())
			pi = &PanicInfo{Value: fmt.Sprint(r), Stack: st}
			pi.Frame, pi.InMPC = ClassifyStack(st)
		}
	}()
	f()
	return nil
}

// ClassifyStack finds the first frame after the panic machinery and tells
// whether it belongs to the code under test.
func ClassifyStack(st string) (frame string, inMPC bool) {
	lines := strings.Split(st, "\n")
	// skip until after "panic(" frame if present
	start := 0
	for i, l := range lines {
		if strings.HasPrefix(l, "panic(") {
			start = i + 2
		}
	}
	for i := start; i < len(lines); i++ {
		l := lines[i]
		if l == "" || strings.HasPrefix(l, "\t") || strings.HasPrefix(l, "goroutine ") {
			continue
		}
		if strings.HasPrefix(l, "runtime.") || strings.HasPrefix(l, "runtime/") ||
			strings.HasPrefix(l, "panic(") || strings.Contains(l, "vrt.Guard") ||
			strings.HasPrefix(l, "math/big.") || strings.HasPrefix(l, "encoding/") ||
			strings.HasPrefix(l, "bytes.") || strings.HasPrefix(l, "strings.") ||
			strings.HasPrefix(l, "sort.") || strings.HasPrefix(l, "slices.") ||
			strings.HasPrefix(l, "internal/") || strings.HasPrefix(l, "crypto/") ||
			strings.HasPrefix(l, "sync.") || strings.HasPrefix(l, "sync/") ||
			strings.HasPrefix(l, "bufio.") || strings.HasPrefix(l, "io.") ||
			strings.HasPrefix(l, "fmt.") || strings.HasPrefix(l, "strconv.") ||
			strings.HasPrefix(l, "reflect.") || strings.HasPrefix(l, "regexp") ||
			strings.HasPrefix(l, "unicode") || strings.HasPrefix(l, "math.") ||
			strings.HasPrefix(l, "created by ") {
			continue
		}
		if strings.HasPrefix(l, "github.com/markkurossi/mpc") {
			return shortFrame(l), true
		}
		if strings.HasPrefix(l, "verifharness/") || strings.HasPrefix(l, "main.") {
			return shortFrame(l), false
		}
		// some other library: keep looking
	}
	return "", false
}

func shortFrame(l string) string {
	if i := strings.Index(l, "("); i > 0 {
		// keep receiver parentheses: cut only the trailing argument list
		if j := strings.LastIndex(l, "("); j > 0 {
			l = l[:j]
		}
	}
	l = strings.TrimPrefix(l, "github.com/markkurossi/mpc/")
	return l
}

// Prop is a property's monitor as seen by the driver.
type Prop struct {
	ID          string
	Level       string // evidence level
	Rule        string // how cases are made / what is non-trivial
	Assumptions []string
	// NumCases returns the number of cases of a tier.
	NumCases func(tier string) int
	// Run executes one case.
	Run func(c *Case)
	// Race: the worker binary must be the -race build for this tier.
	Race func(tier string) bool
	// MaxWorkers bounds parallel worker processes (0 = number of CPUs).
	MaxWorkers int
	// CaseTimeout is the per-case wall-clock watchdog (0 = 5 min). Its firing
	// is inconclusive unless HangVerdict says otherwise.
	CaseTimeout time.Duration
	// CrashVerdict classifies a process-fatal crash of a worker inside the
	// code under test: returns (key, what) of a violation, or "" for
	// "allowed outcome" (counted).
	CrashVerdict func(idx int, stderr string) (key, what string)
	// HangVerdict likewise for a watchdog firing; default inconclusive.
	HangVerdict func(idx int, stacks string) (key, what string)
	// Finalize inspects the aggregate and returns an error when the run
	// observed too little to mean anything ("observed nothing").
	Finalize func(a *Agg) error
	// MinNontrivial is the least number of distinct non-trivial cases a run
	// must have seen (default 2).
	MinNontrivial int
}

// Agg is the merged observation of a run.
type Agg struct {
	Evals        int64
	Keys         map[uint64]struct{}
	Counters     map[string]int64
	Sets         map[string]map[string]bool
	Violations   []CaseViolation
	Inconclusive []string
	Samples      []any
	Cases        int
}

// CaseViolation is a violation with its origin.
type CaseViolation struct {
	Violation
	Idx int
}

// SortedSet returns the members of a set.
func (a *Agg) SortedSet(name string) []string {
	var out []string
	for k := range a.Sets[name] {
		out = append(out, k)
	}
	sort.Strings(out)
	return out
}

// AuxCmds are helper subcommands (`vcheck aux <name> ...`) used by monitors
// that need separate OS processes.
var AuxCmds = map[string]func(args []string) int{}

var registry = map[string]*Prop{}

// Register adds a property monitor.
func Register(p *Prop) { registry[p.ID] = p }

// Lookup finds a property monitor.
func Lookup(id string) *Prop { return registry[id] }

// All returns the registered ids.
func All() []string {
	var ids []string
	for k := range registry {
		ids = append(ids, k)
	}
	sort.Strings(ids)
	return ids
}

// Twins runs f concurrently in n goroutines of this process, each on its own
// sub-case (same property, index and tier; an independent PRNG stream), and
// merges what they observed into c. The twins are separate sessions of the
// code under test that share nothing but the process: package-level state in
// the code under test (scratch buffers, caches, counters) is what they can
// trip over. A violation found this way is marked as such, because the same
// sub-case replays clean when run alone.
func (c *Case) Twins(n int, f func(sub *Case, r *Rng)) {
	subs := make([]*Case, n)
	done := make(chan int, n)
	for i := range subs {
		s := &Case{Prop: c.Prop, Idx: c.Idx, Tier: c.Tier, Seed: c.Seed, Rng: c.Rng.Fork(),
			Counters: map[string]int64{}, Sets: map[string]map[string]bool{}}
		subs[i] = s
	}
	pans := make([]*PanicInfo, n)
	for i := range subs {
		go func(i int) {
			pans[i] = Guard(func() { f(subs[i], subs[i].Rng) })
			done <- i
		}(i)
	}
	for range subs {
		<-done
	}
	c.Counters["concurrent_twin_groups"]++
	for i, s := range subs {
		if pans[i] != nil {
			if pans[i].InMPC {
				c.Violate("panic|"+pans[i].Frame, "panic in code under test (concurrent twin): "+pans[i].Value, map[string]any{"stack": pans[i].Stack})
			} else {
				c.Inconc("harness panic in a concurrent twin: " + pans[i].Value + "\n" + pans[i].Stack)
			}
		}
		c.Evals += s.Evals
		c.Keys = append(c.Keys, s.Keys...)
		for k, v := range s.Counters {
			c.Counters[k] += v
		}
		for set, m := range s.Sets {
			for k := range m {
				c.Seen(set, k)
			}
		}
		for _, v := range s.Violations {
			if v.Detail == nil {
				v.Detail = map[string]any{}
			}
			v.Detail["concurrent_twins"] = n
			c.Counters["violations_raw"]-- // counted by the sub-case already (merged above)
			c.Violate(v.Key, v.What+fmt.Sprintf(" [observed while %d sessions of this case ran concurrently in one process]", n), v.Detail)
		}
		c.Inconclusive = append(c.Inconclusive, s.Inconclusive...)
		if c.Sample == nil {
			c.Sample = s.Sample
		}
	}
}

// ---- pinned witnesses of known findings ------------------------------------
//
// A known finding keyed by a class (operator, width relation ...) would hide
// every other failure of that class. Where the failing inputs of a class can be
// enumerated (exhaustive or fully deterministic regions of a check), the clean
// tree's failing inputs are pinned in /verif/known_witnesses/<property>.txt
// ("key<TAB>witness" lines, committed, never written by a registered command):
// a failure of a known class is the known finding only if its witness is in the
// pinned set; any other witness of the class is reported under
// "<key>|new-witness". VERIF_DUMP_WITNESSES=<file> (a maintenance mode used to
// produce the pinned files from the unchanged tree) appends every witness the
// checks ask about to <file> and answers "known".

var (
	witOnce sync.Once
	witSet  map[string]map[string]bool
	witDump *os.File
	witMu   sync.Mutex
)

func witLoad() {
	witSet = map[string]map[string]bool{}
	if f := os.Getenv("VERIF_DUMP_WITNESSES"); f != "" {
		witDump, _ = os.OpenFile(f, os.O_APPEND|os.O_CREATE|os.O_WRONLY, 0o644)
	}
	files, _ := filepath.Glob(filepath.Join(Root, "known_witnesses", "*.txt"))
	for _, fn := range files {
		b, err := os.ReadFile(fn)
		if err != nil {
			continue
		}
		for _, ln := range strings.Split(string(b), "\n") {
			k, w, ok := strings.Cut(ln, "\t")
			if !ok {
				continue
			}
			if witSet[k] == nil {
				witSet[k] = map[string]bool{}
			}
			witSet[k][w] = true
		}
	}
}

// WitnessKey returns key when witness is a pinned witness of the known
// finding key (or when the key has no pinned witnesses at all), else
// key+"|new-witness".
func WitnessKey(key, witness string) string {
	witOnce.Do(witLoad)
	if witDump != nil {
		witMu.Lock()
		fmt.Fprintf(witDump, "%s\t%s\n", key, witness)
		witMu.Unlock()
		return key
	}
	set := witSet[key]
	if set == nil || set[witness] {
		return key
	}
	return key + "|new-witness"
}

// HasPinnedWitnesses tells whether key has a pinned witness set.
func HasPinnedWitnesses(key string) bool {
	witOnce.Do(witLoad)
	return witSet[key] != nil
}
