// Package vrt is the runtime of the verification harness: PRNG, case
// plumbing, worker protocol, evidence and known-finding handling.
package vrt

import (
	"encoding/binary"
	"hash/fnv"
	"math/big"
	"os"
)

// Rng is a SplitMix64 stream. Every case derives its own stream from
// (VERIF_SEED, property, case index), so a case replays alone. It also
// implements io.Reader so the code under test can be fed with it.
type Rng struct{ s uint64 }

// NewRng creates a stream from a seed.
func NewRng(seed uint64) *Rng { return &Rng{s: seed} }

// Derive creates the stream of a (seed, label, index) triple.
func Derive(seed uint64, label string, idx int) *Rng {
	h := fnv.New64a()
	var b [16]byte
	binary.LittleEndian.PutUint64(b[:8], seed)
	binary.LittleEndian.PutUint64(b[8:], uint64(idx))
	h.Write(b[:])
	h.Write([]byte(label))
	r := &Rng{s: h.Sum64()}
	r.U64()
	return r
}

// U64 returns the next 64 bits.
func (r *Rng) U64() uint64 {
	r.s += 0x9e3779b97f4a7c15
	z := r.s
	z = (z ^ (z >> 30)) * 0xbf58476d1ce4e5b9
	z = (z ^ (z >> 27)) * 0x94d049bb133111eb
	return z ^ (z >> 31)
}

// Intn returns a value in [0,n).
func (r *Rng) Intn(n int) int {
	if n <= 1 {
		return 0
	}
	return int(r.U64() % uint64(n))
}

// Range returns a value in [lo,hi].
func (r *Rng) Range(lo, hi int) int { return lo + r.Intn(hi-lo+1) }

// Bool returns a random bool.
func (r *Rng) Bool() bool { return r.U64()&1 == 1 }

// Chance is true with probability num/den.
func (r *Rng) Chance(num, den int) bool { return r.Intn(den) < num }

// Read fills p with random bytes (io.Reader).
func (r *Rng) Read(p []byte) (int, error) {
	for i := 0; i < len(p); i += 8 {
		v := r.U64()
		for j := 0; j < 8 && i+j < len(p); j++ {
			p[i+j] = byte(v >> (8 * j))
		}
	}
	return len(p), nil
}

// Bytes returns n random bytes.
func (r *Rng) Bytes(n int) []byte {
	b := make([]byte, n)
	r.Read(b)
	return b
}

// Big returns a uniformly random value of at most bits bits.
func (r *Rng) Big(bits int) *big.Int {
	if bits <= 0 {
		return new(big.Int)
	}
	b := r.Bytes((bits + 7) / 8)
	v := new(big.Int).SetBytes(b)
	m := new(big.Int).Lsh(big.NewInt(1), uint(bits))
	return v.Mod(v, m)
}

// Fork derives an independent child stream.
func (r *Rng) Fork() *Rng { return &Rng{s: r.U64() ^ 0xa5a5a5a55a5a5a5a} }

// Pick returns a random element.
func Pick[T any](r *Rng, xs []T) T { return xs[r.Intn(len(xs))] }

// Perm returns a random permutation of 0..n-1.
func (r *Rng) Perm(n int) []int {
	p := make([]int, n)
	for i := range p {
		p[i] = i
	}
	for i := n - 1; i > 0; i-- {
		j := r.Intn(i + 1)
		p[i], p[j] = p[j], p[i]
	}
	return p
}

// BoundaryBig returns an "interesting" value of the given width: 0, 1,
// all-ones, sign bit only, max positive, 0x55.., 0xAA.., 2^k, 2^k±1 or random.
func (r *Rng) BoundaryBig(bits int) *big.Int {
	if bits <= 0 {
		return new(big.Int)
	}
	one := big.NewInt(1)
	mod := new(big.Int).Lsh(one, uint(bits))
	all := new(big.Int).Sub(mod, one)
	var v *big.Int
	switch r.Intn(12) {
	case 0:
		v = new(big.Int)
	case 1:
		v = big.NewInt(1)
	case 2:
		v = new(big.Int).Set(all)
	case 3:
		v = new(big.Int).Lsh(one, uint(bits-1))
	case 4:
		v = new(big.Int).Sub(new(big.Int).Lsh(one, uint(bits-1)), one)
	case 5, 6:
		v = new(big.Int)
		for i := r.Intn(2); i < bits; i += 2 {
			v.SetBit(v, i, 1)
		}
	case 7:
		v = new(big.Int).Lsh(one, uint(r.Intn(bits)))
	case 8:
		v = new(big.Int).Lsh(one, uint(r.Intn(bits)))
		if r.Bool() {
			v.Add(v, one)
		} else {
			v.Sub(v, one)
		}
	default:
		v = r.Big(bits)
	}
	return v.And(v, all)
}

// Hash64 hashes arbitrary strings to a 64-bit key (for distinct counting).
func Hash64(parts ...string) uint64 {
	h := fnv.New64a()
	for _, p := range parts {
		h.Write([]byte(p))
		h.Write([]byte{0})
	}
	return h.Sum64()
}

// HashBytes hashes bytes.
func HashBytes(b []byte) uint64 {
	h := fnv.New64a()
	h.Write(b)
	return h.Sum64()
}

// Repo is the root of the markkurossi/mpc tree under test: /repo, or
// $VERIF_REPO for background sweeps against a copy (the registered checks
// never set it).
var Repo = func() string {
	if r := os.Getenv("VERIF_REPO"); r != "" {
		return r
	}
	return "/repo"
}()
