// Package otx instruments oblivious transfer at its public boundaries.
package otx

import (
	"fmt"
	"sync"

	"github.com/markkurossi/mpc/ot"
)

// Recorder wraps an ot.OT and records what crosses its API.
type Recorder struct {
	Inner ot.OT
	mu    sync.Mutex
	// Sent holds the wires of every Send call.
	Sent [][]ot.Wire
	// Flags / Got hold the arguments and results of every Receive call.
	Flags [][]bool
	Got   [][]ot.Label
}

// InitSender implements ot.OT.
func (r *Recorder) InitSender(io ot.IO) error { return r.Inner.InitSender(io) }

// InitReceiver implements ot.OT.
func (r *Recorder) InitReceiver(io ot.IO) error { return r.Inner.InitReceiver(io) }

// Send implements ot.OT.
func (r *Recorder) Send(wires []ot.Wire) error {
	r.mu.Lock()
	r.Sent = append(r.Sent, append([]ot.Wire(nil), wires...))
	r.mu.Unlock()
	return r.Inner.Send(wires)
}

// Receive implements ot.OT.
func (r *Recorder) Receive(flags []bool, result []ot.Label) error {
	err := r.Inner.Receive(flags, result)
	r.mu.Lock()
	r.Flags = append(r.Flags, append([]bool(nil), flags...))
	r.Got = append(r.Got, append([]ot.Label(nil), result...))
	r.mu.Unlock()
	return err
}

// Ideal is a trivially correct in-memory 1-out-of-2 OT used as base OT when
// the IKNP layer itself is under test.
type Ideal struct {
	ch chan []ot.Wire
}

// NewIdealPair returns the two connected ends (either may send).
func NewIdealPair() (*Ideal, *Ideal) {
	ch := make(chan []ot.Wire, 16)
	return &Ideal{ch}, &Ideal{ch}
}

// InitSender implements ot.OT.
func (i *Ideal) InitSender(io ot.IO) error { return nil }

// InitReceiver implements ot.OT.
func (i *Ideal) InitReceiver(io ot.IO) error { return nil }

// Send implements ot.OT.
func (i *Ideal) Send(wires []ot.Wire) error {
	i.ch <- append([]ot.Wire(nil), wires...)
	return nil
}

// Receive implements ot.OT.
func (i *Ideal) Receive(flags []bool, result []ot.Label) error {
	w := <-i.ch
	if len(w) != len(flags) || len(result) < len(flags) {
		return fmt.Errorf("ideal OT: length mismatch %d/%d/%d", len(w), len(flags), len(result))
	}
	for k, f := range flags {
		if f {
			result[k] = w[k].L1
		} else {
			result[k] = w[k].L0
		}
	}
	return nil
}

// TamperIO wraps an ot.IO and alters what its owner *receives*.
type TamperIO struct {
	ot.IO
	// DataHook is called with the index of the ReceiveData call (0-based) and
	// the chunk; it may modify the chunk in place.
	DataHook func(k int, chunk []byte)
	// LabelHook likewise for ReceiveLabel.
	LabelHook func(k int, l *ot.Label)
	nd, nl    int
	// Chunks records the length of every received data chunk.
	Chunks []int
}

// ReceiveData implements ot.IO.
func (t *TamperIO) ReceiveData() ([]byte, error) {
	d, err := t.IO.ReceiveData()
	if err != nil {
		return d, err
	}
	d = append([]byte(nil), d...)
	t.Chunks = append(t.Chunks, len(d))
	if t.DataHook != nil {
		t.DataHook(t.nd, d)
	}
	t.nd++
	return d, nil
}

// ReceiveLabel implements ot.IO.
func (t *TamperIO) ReceiveLabel(val *ot.Label, data *ot.LabelData) error {
	if err := t.IO.ReceiveLabel(val, data); err != nil {
		return err
	}
	if t.LabelHook != nil {
		t.LabelHook(t.nl, val)
	}
	t.nl++
	return nil
}

// BufIO is an unbounded in-memory ot.IO pair (ot.Pipe has 64 KiB buffers and
// synchronous writes; this one never blocks a writer).
type BufIO struct {
	in, out *bq
}

type bq struct {
	mu     sync.Mutex
	cond   *sync.Cond
	q      []byte
	closed bool
}

// NewBufIOPair creates two connected ends.
func NewBufIOPair() (*BufIO, *BufIO) {
	a, b := &bq{}, &bq{}
	a.cond = sync.NewCond(&a.mu)
	b.cond = sync.NewCond(&b.mu)
	return &BufIO{in: a, out: b}, &BufIO{in: b, out: a}
}

func (b *BufIO) put(p []byte) error {
	b.out.mu.Lock()
	defer b.out.mu.Unlock()
	if b.out.closed {
		return nil // peer is gone: discard
	}
	b.out.q = append(b.out.q, p...)
	b.out.cond.Broadcast()
	return nil
}

func (b *BufIO) get(n int) ([]byte, error) {
	b.in.mu.Lock()
	defer b.in.mu.Unlock()
	for len(b.in.q) < n {
		if b.in.closed {
			return nil, fmt.Errorf("bufio: EOF")
		}
		b.in.cond.Wait()
	}
	r := append([]byte(nil), b.in.q[:n]...)
	b.in.q = b.in.q[n:]
	return r, nil
}

// Close ends both directions.
func (b *BufIO) Close() {
	for _, q := range []*bq{b.in, b.out} {
		q.mu.Lock()
		q.closed = true
		q.cond.Broadcast()
		q.mu.Unlock()
	}
}

// SendByte implements ot.IO.
func (b *BufIO) SendByte(v byte) error { return b.put([]byte{v}) }

// SendUint32 implements ot.IO.
func (b *BufIO) SendUint32(v int) error {
	return b.put([]byte{byte(v >> 24), byte(v >> 16), byte(v >> 8), byte(v)})
}

// SendData implements ot.IO.
func (b *BufIO) SendData(v []byte) error {
	if err := b.SendUint32(len(v)); err != nil {
		return err
	}
	return b.put(v)
}

// SendLabel implements ot.IO.
func (b *BufIO) SendLabel(v ot.Label, d *ot.LabelData) error { return b.put(v.Bytes(d)) }

// Flush implements ot.IO.
func (b *BufIO) Flush() error { return nil }

// ReceiveByte implements ot.IO.
func (b *BufIO) ReceiveByte() (byte, error) {
	d, err := b.get(1)
	if err != nil {
		return 0, err
	}
	return d[0], nil
}

// ReceiveUint32 implements ot.IO.
func (b *BufIO) ReceiveUint32() (int, error) {
	d, err := b.get(4)
	if err != nil {
		return 0, err
	}
	return int(uint32(d[0])<<24 | uint32(d[1])<<16 | uint32(d[2])<<8 | uint32(d[3])), nil
}

// ReceiveData implements ot.IO.
func (b *BufIO) ReceiveData() ([]byte, error) {
	n, err := b.ReceiveUint32()
	if err != nil {
		return nil, err
	}
	return b.get(n)
}

// ReceiveLabel implements ot.IO.
func (b *BufIO) ReceiveLabel(v *ot.Label, d *ot.LabelData) error {
	p, err := b.get(16)
	if err != nil {
		return err
	}
	copy(d[:], p)
	v.SetData(d)
	return nil
}

// FaultIO fails the FailAt-th receive call (1-based, counting ReceiveByte,
// ReceiveUint32, ReceiveData and ReceiveLabel together) and every later one:
// a transport that breaks at a chosen point of a protocol. FailAt 0 never
// fails; Calls counts receive calls (to size FailAt from a clean run).
type FaultIO struct {
	ot.IO
	FailAt int
	Calls  int
	fired  bool
}

// ErrInjectedReceive is what a FaultIO returns at and after its failure point.
var ErrInjectedReceive = fmt.Errorf("otx: injected receive failure")

// Fired tells whether the failure point was reached.
func (f *FaultIO) Fired() bool { return f.fired }

func (f *FaultIO) hit() bool {
	f.Calls++
	if f.FailAt > 0 && f.Calls >= f.FailAt {
		f.fired = true
		return true
	}
	return false
}

// ReceiveByte implements ot.IO.
func (f *FaultIO) ReceiveByte() (byte, error) {
	if f.hit() {
		return 0, ErrInjectedReceive
	}
	return f.IO.ReceiveByte()
}

// ReceiveUint32 implements ot.IO.
func (f *FaultIO) ReceiveUint32() (int, error) {
	if f.hit() {
		return 0, ErrInjectedReceive
	}
	return f.IO.ReceiveUint32()
}

// ReceiveData implements ot.IO.
func (f *FaultIO) ReceiveData() ([]byte, error) {
	if f.hit() {
		return nil, ErrInjectedReceive
	}
	return f.IO.ReceiveData()
}

// ReceiveLabel implements ot.IO.
func (f *FaultIO) ReceiveLabel(val *ot.Label, data *ot.LabelData) error {
	if f.hit() {
		return ErrInjectedReceive
	}
	return f.IO.ReceiveLabel(val, data)
}
