package props

import (
	"bytes"
	"fmt"
	"math/big"
	"os"
	"path/filepath"
	"reflect"
	"regexp"
	"strings"
	"time"

	mpc "github.com/markkurossi/mpc"
	"github.com/markkurossi/mpc/circuit"
	"github.com/markkurossi/mpc/compiler"
	"github.com/markkurossi/mpc/compiler/utils"

	"verifharness/internal/mpclgen"
	"verifharness/internal/refc"
	"verifharness/internal/vrt"
)

type nopCloser struct{ *bytes.Buffer }

func (nopCloser) Close() error { return nil }

// compileWithSSA compiles and returns the circuit and the SSA listing.
func compileWithSSA(src string, params *utils.Params, sizes [][]int) (c *circuit.Circuit, ssa string, err error, pan *vrt.PanicInfo) {
	if params == nil {
		params = utils.NewParams()
	}
	var buf bytes.Buffer
	params.SSAOut = nopCloser{&buf}
	pan = vrt.Guard(func() {
		c, _, err = compiler.New(params).Compile(src, sizes)
	})
	params.SSAOut = nil
	return c, buf.String(), err, pan
}

var reSSAOp = regexp.MustCompile(`(?m)^\s+([a-z][a-z0-9]*)\s`)

func ssaOpcodes(listing string) map[string]bool {
	ops := map[string]bool{}
	for _, m := range reSSAOp.FindAllStringSubmatch(listing, -1) {
		ops[m[1]] = true
	}
	return ops
}

// genVectors builds input vectors for the argument types: all combinations of
// boundary values per scalar leaf when that is small, else sampled; exhaustive
// when the inputs total <= 10 bits.
func genVectors(r *vrt.Rng, args []*mpclgen.Type, n int) ([][]mpclgen.Val, bool) {
	total := 0
	for _, t := range args {
		total += t.Width()
	}
	var out [][]mpclgen.Val
	if total <= 10 {
		for v := 0; v < 1<<uint(total); v++ {
			flat := big.NewInt(int64(v))
			var vals []mpclgen.Val
			off := 0
			for _, t := range args {
				x := new(big.Int).Rsh(flat, uint(off))
				vals = append(vals, mpclgen.FromFlat(t, x))
				off += t.Width()
			}
			out = append(out, vals)
		}
		return out, true
	}
	for i := 0; i < n; i++ {
		var vals []mpclgen.Val
		for _, t := range args {
			flat := new(big.Int)
			off := 0
			for _, l := range t.Leaves() {
				var x *big.Int
				if i%4 == 3 {
					x = r.Big(l.Bits)
				} else if i%4 == 1 {
					// jointly extreme operands: long carry/borrow chains and
					// overflow need both operands at an edge at once
					x = extremeBig(r, l.Bits)
				} else {
					x = r.BoundaryBig(l.Bits)
				}
				flat.Or(flat, new(big.Int).Lsh(x, uint(off)))
				off += l.Bits
			}
			vals = append(vals, mpclgen.FromFlat(t, flat))
		}
		out = append(out, vals)
	}
	return out, false
}

// extremeBig draws from {0, 1, 2, max, max-1, 2^(w-1), 2^(w-1)-1, 2^(w-1)+1}.
func extremeBig(r *vrt.Rng, bits int) *big.Int {
	one := big.NewInt(1)
	mod := new(big.Int).Lsh(one, uint(bits))
	half := new(big.Int).Rsh(mod, 1)
	var v *big.Int
	switch r.Intn(9) {
	case 0:
		v = new(big.Int)
	case 1, 2:
		v = big.NewInt(1)
	case 3:
		v = big.NewInt(2)
	case 4, 5:
		v = new(big.Int).Sub(mod, one)
	case 6:
		v = new(big.Int).Sub(mod, big.NewInt(2))
	case 7:
		v = new(big.Int).Sub(half, one)
	default:
		v = new(big.Int).Add(half, big.NewInt(int64(r.Intn(2))))
	}
	return v.And(v, new(big.Int).Sub(mod, one))
}

func flattenArgs(vals []mpclgen.Val) *big.Int {
	flat := new(big.Int)
	off := 0
	for _, v := range vals {
		flat.Or(flat, new(big.Int).Lsh(v.Flat(), uint(off)))
		off += v.T.Width()
	}
	return flat
}

func argStrings(vals []mpclgen.Val) []string {
	var s []string
	for _, v := range vals {
		s = append(s, v.String())
	}
	return s
}

// shapeOf classifies a mismatch by the features of the (minimised) program.
func featureList(p *mpclgen.Program) []string {
	var f []string
	for k := range p.Feat {
		f = append(f, k)
	}
	return f
}

var c03GenCfg = mpclgen.Config{Arrays: true, Structs: true, Funcs: true, Loops: true, Division: true, Mult: true, NoConst: true}

func c03Shipped() []string {
	var files []string
	filepath.Walk(vrt.Repo+"/testsuite", func(path string, info os.FileInfo, err error) error {
		if err == nil && strings.HasSuffix(path, ".mpcl") {
			files = append(files, path)
		}
		return nil
	})
	return files
}

func init() {
	vrt.Register(&vrt.Prop{
		ID: "C03", Level: "exploration",
		Rule: "monitor 1: every shipped testsuite/**/*.mpcl with its @Test vectors is compiled and computed as testsuite_test.go does (a program is 'unavailable' only when its compile error is 'failed to parse circuit' and the native circuit file is 0 bytes). " +
			"monitor 2: a program generated from the typed grammar (int/uint widths 1..130, bool, arrays, structs, calls with 1-3 results, if/else-if/else with early return, unrolled loops, shadowing, compound assignment, casts, constant shifts) is compiled with default parameters; the circuit is evaluated bit-sliced on all inputs (<= 10 input bits) or 48 boundary/random vectors and compared bit for bit with the harness's reference interpreter. " +
			"Programs the compiler rejects are counted, not judged. Distinct = hash of the program text; non-trivial = compiled and judged on >= 1 vector.",
		Assumptions: []string{"the reference interpreter (mpclgen) implements the documented semantics: wrapping arithmetic at the declared width, truncating signed division, |a| mod |b| remainder, arithmetic >> on intN, shifts >= width give 0, sign/zero extension by source signedness"},
		NumCases: func(t string) int {
			n := len(c03Shipped())
			if t == "thorough" {
				return n + 30000
			}
			return n + 1500
		},
		CaseTimeout: 8 * time.Minute,
		Run:         runC03,
		Finalize: func(a *vrt.Agg) error {
			if a.Counters["generated_compiled"]*2 < a.Counters["generated"] {
				return fmt.Errorf("only %d of %d generated programs compiled", a.Counters["generated_compiled"], a.Counters["generated"])
			}
			if len(a.Sets["ssa_opcodes"]) < 20 {
				return fmt.Errorf("only %d distinct SSA opcodes reached", len(a.Sets["ssa_opcodes"]))
			}
			return nil
		},
	})
}

// runC03: most cases run alone; some run as concurrent sessions of the same
// case shape in one process (package-level state in the code under test).
func runC03(cs *vrt.Case) {
	if cs.Idx >= len(c03Shipped()) && cs.Idx%4 == 3 {
		cs.Twins(2+(cs.Idx/4)%2, func(sub *vrt.Case, _ *vrt.Rng) { runC03One(sub) })
		return
	}
	runC03One(cs)
}

func runC03One(cs *vrt.Case) {
	files := c03Shipped()
	if cs.Idx < len(files) {
		c03ShippedCase(cs, files[cs.Idx])
		return
	}
	c03Generated(cs, cs.Rng, c03GenCfg)
}

func c03ShippedCase(cs *vrt.Case, file string) {
	base := strings.TrimPrefix(file, vrt.Repo+"/")
	if !cs.Thorough() && strings.Contains(base, "aes128_cts") {
		cs.Count("shipped_skipped_in_quick", 1)
		return
	}
	srcb, _ := os.ReadFile(file)
	params := utils.NewParams()
	params.MPCLCErrorLoc = true
	cc := compiler.New(params)
	var annotations []string
	var perr error
	if pi := vrt.Guard(func() {
		pkg, err := cc.ParseFile(file)
		if err != nil {
			perr = err
			return
		}
		main, ok := pkg.Functions["main"]
		if !ok {
			perr = fmt.Errorf("no main function")
			return
		}
		annotations = main.Annotations
	}); pi != nil {
		cs.Violate("C03|shipped-panic|"+base, "parsing a shipped test program panicked: "+pi.Value, map[string]any{"file": base, "stack": pi.Stack})
		return
	}
	if perr != nil {
		cs.Violate("C03|shipped-error|"+base, "shipped test program does not parse: "+perr.Error(), map[string]any{"file": base})
		return
	}
	lsb := false
	hexBase := false
	ntests := 0
	cs.SetSample(map[string]any{"kind": "shipped", "file": base})
	for _, annotation := range annotations {
		ann := strings.TrimSpace(annotation)
		if strings.HasPrefix(ann, "@Hex") {
			hexBase = true
			continue
		}
		if strings.HasPrefix(ann, "@LSB") {
			lsb = true
			continue
		}
		if !strings.HasPrefix(ann, "@Test ") {
			continue
		}
		parts := strings.Fields(ann)
		var inputValues [][]string
		var inputs, outputs []*big.Int
		sep := false
		bad := false
		for i := 1; i < len(parts); i++ {
			part := parts[i]
			if part == "=" {
				sep = true
				continue
			}
			var iv []string
			for _, input := range strings.Split(part, ",") {
				var v *big.Int
				if input != "_" {
					v = new(big.Int)
					if hexBase && lsb {
						input = reverseHex(input)
					}
					if _, ok := v.SetString(input, 0); !ok {
						bad = true
					}
				}
				if sep {
					outputs = append(outputs, v)
				} else {
					iv = append(iv, input)
					inputs = append(inputs, v)
				}
			}
			if !sep {
				inputValues = append(inputValues, iv)
			}
		}
		if bad {
			cs.Inconc("cannot parse @Test annotation: " + ann)
			return
		}
		var c *circuit.Circuit
		var cerr error
		var results []*big.Int
		pi := vrt.Guard(func() {
			var sizes [][]int
			for _, iv := range inputValues {
				s, e := circuit.InputSizes(iv)
				if e != nil {
					cerr = e
					return
				}
				sizes = append(sizes, s)
			}
			c, _, cerr = cc.CompileFile(file, sizes)
			if cerr != nil {
				return
			}
			results, cerr = c.Compute(inputs)
		})
		if pi != nil {
			cs.Violate("C03|shipped-panic|"+base, "compiling/computing a shipped test program panicked: "+pi.Value, map[string]any{"file": base, "test": ann, "stack": pi.Stack})
			return
		}
		if cerr != nil {
			if strings.Contains(cerr.Error(), "failed to parse circuit") && nativeCircuitEmpty(string(srcb)) {
				cs.Count("shipped_unavailable", 1)
				cs.Seen("unavailable_programs", base)
				return
			}
			cs.Violate("C03|shipped-error|"+base, "shipped test program failed: "+cerr.Error(), map[string]any{"file": base, "test": ann})
			return
		}
		cs.Evals++
		ntests++
		if len(results) != len(outputs) {
			cs.Violate("C03|shipped-arity|"+base, fmt.Sprintf("%d results, @Test lists %d", len(results), len(outputs)), map[string]any{"file": base, "test": ann})
			return
		}
		for idx := range results {
			out := c.Outputs[idx]
			rr := mpc.Result(results[idx], out)
			re := mpc.Result(outputs[idx], out)
			if !reflect.DeepEqual(rr, re) {
				cs.Violate("C03|shipped-vector|"+base, fmt.Sprintf("%s: output %d = %v, expected %v", ann, idx, rr, re), map[string]any{"file": base, "test": ann})
				return
			}
		}
	}
	if ntests == 0 {
		cs.Count("shipped_without_tests", 1)
		return
	}
	cs.Key("shipped", base)
	cs.Count("shipped_programs_passed", 1)
	cs.Count("shipped_vectors_passed", int64(ntests))
}

func reverseHex(val string) string {
	prefix := ""
	if strings.HasPrefix(val, "0x") {
		val = val[2:]
		prefix = "0x"
	}
	var result string
	for i := len(val) - 2; i >= 0; i -= 2 {
		result += val[i : i+2]
	}
	if len(val)%2 == 1 {
		result += val[0:1]
	}
	return prefix + result
}

func nativeCircuitEmpty(src string) bool {
	for _, f := range []string{vrt.Repo + "/pkg/crypto/sha512/sha512.circ", vrt.Repo + "/pkg/crypto/sha512/sha512.mpclc"} {
		if st, err := os.Stat(f); err == nil && st.Size() == 0 && strings.Contains(src, "sha512") {
			return true
		}
	}
	return false
}

// c03Judge compiles a generated program and compares circuit and interpreter.
// It returns the witness (nil when they agree) for minimisation.
type c03Witness struct {
	args  []mpclgen.Val
	got   *big.Int
	want  *big.Int
	where string
}

func c03Compare(p *mpclgen.Program, c *circuit.Circuit, vecs [][]mpclgen.Val) (*c03Witness, int, error) {
	// shape check
	nin := 0
	for _, t := range p.ArgT {
		nin += t.Width()
	}
	nout := 0
	for _, t := range p.RetT {
		nout += t.Width()
	}
	if c.Inputs.Size() != nin || c.Outputs.Size() != nout {
		return &c03Witness{where: fmt.Sprintf("signature: circuit has %d input and %d output wires, program declares %d and %d", c.Inputs.Size(), c.Outputs.Size(), nin, nout)}, 0, nil
	}
	var flats []*big.Int
	for _, v := range vecs {
		flats = append(flats, flattenArgs(v))
	}
	outs, err := refc.EvalFlat(c, flats)
	if err != nil {
		return nil, 0, err
	}
	n := 0
	for k, v := range vecs {
		res, err := p.Run(v)
		if err != nil {
			return nil, n, err
		}
		want := flattenArgs(res)
		n++
		if outs[k].Cmp(want) != 0 {
			// which output differs
			off := 0
			where := ""
			for i, t := range p.RetT {
				w := t.Width()
				m := new(big.Int).Sub(new(big.Int).Lsh(big.NewInt(1), uint(w)), big.NewInt(1))
				a := new(big.Int).And(new(big.Int).Rsh(outs[k], uint(off)), m)
				b := new(big.Int).And(new(big.Int).Rsh(want, uint(off)), m)
				if a.Cmp(b) != 0 {
					where = fmt.Sprintf("output %d (%s): circuit %s, semantics %s", i, t.Src(), mpclgen.FromFlat(t, a), mpclgen.FromFlat(t, b))
					break
				}
				off += w
			}
			return &c03Witness{args: v, got: outs[k], want: want, where: where}, n, nil
		}
	}
	return nil, n, nil
}

func c03Generated(cs *vrt.Case, r *vrt.Rng, cfg mpclgen.Config) {
	// small widths more often: they allow exhaustive inputs
	if r.Intn(3) == 0 {
		cfg.Widths = []int{1, 2, 3, 4, 5}
		cfg.Args = 2
	}
	// every fifth program is compiled for the GMW target (the other code
	// path of every arithmetic builder); without division there: the GMW
	// divider's inexactness is a known finding of C07/C09
	gmw := cs.Idx%5 == 2
	mk := func() *utils.Params {
		if !gmw {
			return nil
		}
		pp := utils.NewParams()
		pp.Target = utils.TargetGMW
		return pp
	}
	if gmw {
		cfg.Division, cfg.NoModulo = false, true
		cs.Count("generated_compiled_for_GMW", 1)
	}
	p := mpclgen.Generate(r, cfg)
	cs.Count("generated", 1)
	c, ssa, err, pan := compileWithSSA(p.Src, mk(), nil)
	desc := map[string]any{"kind": "generated", "program": p.Src, "target_gmw": gmw}
	cs.SetSample(map[string]any{"kind": "generated", "program": trunc(p.Src, 1500)})
	if pan != nil {
		if !pan.InMPC {
			cs.Inconc("harness panic: " + pan.Value)
			return
		}
		cs.Violate("C03|compiler-panic|"+pan.Frame, "compiler panicked on a generated program: "+pan.Value, map[string]any{"case": desc, "stack": pan.Stack})
		return
	}
	if err != nil {
		cs.Count("generated_rejected", 1)
		cs.Seen("rejection_reasons", trimNum(lastLine(err.Error())))
		return
	}
	if p.Feat["folded-const-expr"] {
		cs.Count("generated_with_folded_constants_skipped", 1) // C12's business
		return
	}
	cs.Count("generated_compiled", 1)
	for op := range ssaOpcodes(ssa) {
		cs.Seen("ssa_opcodes", op)
	}
	for f := range p.Feat {
		cs.Seen("language_features", f)
	}
	vecs, exh := genVectors(r, p.ArgT, 48)
	w, n, cerr := c03Compare(p, c, vecs)
	cs.Evals += int64(n)
	if cerr != nil {
		cs.Inconc("comparison failed: " + cerr.Error())
		return
	}
	if exh {
		cs.Count("programs_with_exhaustive_inputs", 1)
	}
	if w == nil {
		cs.Keys = append(cs.Keys, vrt.Hash64(p.Src))
		return
	}
	// minimise: drop statements/functions while the program still compiles
	// and still disagrees on the witness input
	if w.args != nil {
		budget := 600
		orig := p.Src
		p.Minimise(func(src string) bool {
			if budget <= 0 {
				return false
			}
			budget--
			c2, err, pan := compileMPCL(src, mk(), nil)
			if err != nil || pan != nil || c2 == nil {
				return false
			}
			w2, _, e2 := c03Compare(p, c2, [][]mpclgen.Val{w.args})
			return e2 == nil && w2 != nil && w2.args != nil
		})
		if c2, err, pan := compileMPCL(p.Src, mk(), nil); err == nil && pan == nil {
			if w2, _, e2 := c03Compare(p, c2, [][]mpclgen.Val{w.args}); e2 == nil && w2 != nil {
				w = w2
			}
		}
		desc["program"] = p.Src
		desc["original_program"] = orig
	}
	desc["where"] = w.where
	if w.args != nil {
		desc["inputs"] = argStrings(w.args)
	}
	desc["features"] = featureList(p)
	// classify: does the circuit implement the program without block scopes?
	if p.Feat["shadow"] && w.args != nil {
		if c2, err, pan := compileMPCL(p.Src, mk(), nil); err == nil && pan == nil {
			flat, _ := refc.EvalFlat(c2, []*big.Int{flattenArgs(w.args)})
			if res, err := p.RunFlat(w.args); err == nil && flat != nil && flat[0].Cmp(flattenArgs(res)) == 0 {
				cs.Violate("C03|shadowing|inner-var-assigns-outer-variable", "a variable declared in an inner block with the name of an outer variable overwrites the outer one: "+w.where, desc)
				return
			}
		}
	}
	// classify: is it the literal-representation finding (a non-negative literal
	// assigned in a branch to a signed variable wider than the literal's 32/64-bit
	// storage comes out sign-extended from that storage)?
	if p.Feat["literal-select-top-storage-bit"] && w.args != nil {
		if c2, err, pan := compileMPCL(p.Src, mk(), nil); err == nil && pan == nil {
			flat, _ := refc.EvalFlat(c2, []*big.Int{flattenArgs(w.args)})
			if res, err := p.RunLitSext(w.args); err == nil && flat != nil && flat[0].Cmp(flattenArgs(res)) == 0 {
				cs.Violate("C03|literal-select|non-negative-literal-sign-extended-from-its-storage-width", "a non-negative literal with the top bit of its 32/64-bit storage set, assigned in a branch to a wider signed variable, is sign-extended from the storage width: "+w.where, desc)
				return
			}
		}
	}
	cs.Violate("C03|generated-mismatch", "compiled circuit disagrees with the program's semantics: "+w.where, desc)
}

func lastLine(s string) string {
	s = strings.TrimSpace(s)
	if i := strings.LastIndex(s, "\n"); i >= 0 {
		s = s[i+1:]
	}
	// drop "file:line:col: "
	if i := strings.Index(s, ": "); i >= 0 && strings.Contains(s[:i], ":") {
		s = s[i+2:]
	}
	return trunc(s, 120)
}
