package props

import (
	"fmt"
	"math/big"
	"os"
	"path/filepath"
	"runtime"
	"strings"
	"sync"
	"time"

	"github.com/markkurossi/mpc/circuit"
	"github.com/markkurossi/mpc/compiler/utils"
	"github.com/markkurossi/mpc/types"

	"verifharness/internal/mpclgen"
	"verifharness/internal/refc"
	"verifharness/internal/vrt"
)

// two-party MPCL programs used by the protocol monitors until the generator
// provides more (see mpclgen); all have main(a, b).
var twoPartyPrograms = []string{
	`package main
func main(a, b uint7) (uint7, bool) {
	return a * b, a > b
}
`,
	`package main
func main(a int9, b int9) (int9, int9, bool) {
	if a < b {
		return b - a, a, true
	}
	return a - b, b, false
}
`,
	`package main
func main(a uint1, b uint3) uint4 {
	return uint4(a) + uint4(b)
}
`,
	`package main
func main(a [3]uint5, b uint5) (uint5, [3]uint5) {
	var r [3]uint5
	var s uint5
	for i := 0; i < 3; i++ {
		r[i] = a[i] ^ b
		s = s + a[i]
	}
	return s, r
}
`,
	`package main
func main(a uint16, b uint16) uint16 {
	if b == 0 {
		return a
	}
	return a / b + a % b
}
`,
}

// testsuiteTwoParty lists shipped two-argument test programs (cheap ones).
func testsuiteTwoParty() []string {
	var out []string
	for _, pat := range []string{vrt.Repo + "/testsuite/lang/*.mpcl", vrt.Repo + "/testsuite/math/*.mpcl", vrt.Repo + "/testsuite/bytes/*.mpcl"} {
		m, _ := filepath.Glob(pat)
		for _, f := range m {
			b, err := os.ReadFile(f)
			if err != nil {
				continue
			}
			s := string(b)
			if strings.Contains(s, "sha512") || strings.Contains(s, "import") {
				continue
			}
			out = append(out, f)
		}
	}
	return out
}

// twoPartyCircuit picks the circuit of a protocol case: generated, compiled
// from the fixed programs, or compiled from a shipped test program. Returns
// nil when the pick does not yield a usable 2-party circuit (counted).
func twoPartyCircuit(cs *vrt.Case, r *vrt.Rng, sel int, maxGates int) (*circuit.Circuit, string) {
	if sel%5 == 4 {
		// a generated two-party program
		g := mpclgen.Generate(r, mpclgen.Config{Args: 2, ScalarArgs: true, Funcs: true, Loops: true, Division: true, Mult: true, NoConst: true, MaxStmts: 3,
			Widths: []int{1, 2, 3, 5, 7, 8, 9, 15, 16, 17, 33}})
		c, err, pi := compileMPCL(g.Src, utils.NewParams(), nil)
		if err != nil || pi != nil || c == nil || c.NumGates > 60000 {
			cs.Count("generated_programs_not_usable", 1)
			return nil, ""
		}
		return c, "generated program " + fmt.Sprint(vrt.Hash64(g.Src))
	}
	if sel%11 == 6 {
		// a wide evaluator argument: more than 512 / 1024 input wires go
		// through one OT batch (several IKNP chunks)
		sh := refc.RandShape(r, 2, maxGates)
		sh.Kind = 4
		sh.Args = []int{vrt.Pick(r, []int{1, 3, 8, 64}), vrt.Pick(r, []int{513, 520, 640, 1023, 1025, 1100, 1537, 2050})}
		sh.Gates = 3*sh.Args[1] + r.Intn(500)
		sh.Outs = []int{vrt.Pick(r, []int{8, 33, 64}), vrt.Pick(r, []int{1, 16, 128})}
		return refc.Gen(r, sh), fmt.Sprintf("generated wide %v->%v gates=%d", sh.Args, sh.Outs, sh.Gates)
	}
	switch sel % 4 {
	case 0, 1:
		sh := refc.RandShape(r, 2, maxGates)
		sh.Args = []int{vrt.Pick(r, []int{1, 1, 2, 3, 5, 7, 8, 9}), vrt.Pick(r, []int{1, 1, 2, 3, 4, 7, 8, 9})}
		return refc.Gen(r, sh), fmt.Sprintf("generated %v->%v gates=%d", sh.Args, sh.Outs, sh.Gates)
	case 2:
		src := twoPartyPrograms[(sel/4)%len(twoPartyPrograms)]
		p := utils.NewParams()
		c, err, pi := compileMPCL(src, p, nil)
		if err != nil || pi != nil {
			cs.Inconc(fmt.Sprintf("fixture program does not compile: %v %v", err, pi))
			return nil, ""
		}
		return c, fmt.Sprintf("compiled fixture %d", (sel/4)%len(twoPartyPrograms))
	default:
		files := testsuiteTwoParty()
		if len(files) == 0 {
			return nil, ""
		}
		f := files[(sel/4)%len(files)]
		src, _ := os.ReadFile(f)
		c, err, pi := compileMPCL(string(src), utils.NewParams(), nil)
		if err != nil || pi != nil || c == nil || len(c.Inputs) != 2 || c.NumGates > 60000 || c.Inputs[0].Type.Bits == 0 || c.Inputs[1].Type.Bits == 0 {
			cs.Count("testsuite_programs_not_usable_as_2party", 1)
			return nil, ""
		}
		return c, "testsuite " + filepath.Base(f)
	}
}

func init() {
	vrt.Register(&vrt.Prop{
		ID: "C02", Level: "exploration",
		Rule: "case = (two-party circuit: generated with 1-bit/odd/unequal argument widths and 1-3 outputs, compiled fixture or shipped test program; OT in {CO, COT, COT-malicious, RSA-1024}; transport p2p.Conn over a fragmenting/delaying tap or p2p.Pipe; all input pairs when <= 8 bits in total else boundary+random pairs). " +
			"Oracle: both parties return nil error and identical values equal to the reference evaluation split per declared output; a session that stalls for 30 s is a violation. Distinct = hash(circuit, OT, inputs); non-trivial = a non-free gate feeds an output.",
		Assumptions: []string{"both parties run as goroutines of one process", "refc is the meaning of plain evaluation"},
		NumCases: func(t string) int {
			if t == "thorough" {
				return 1600
			}
			return 160
		},
		CaseTimeout: 4 * time.Minute,
		Run:         runC02,
	})
}

// runC02: most cases run alone; some run as concurrent sessions of the same
// case shape in one process (package-level state in the code under test).
func runC02(cs *vrt.Case) {
	if cs.Idx%6 == 5 {
		cs.Twins(2, func(sub *vrt.Case, _ *vrt.Rng) { runC02One(sub) })
		return
	}
	runC02One(cs)
}

func runC02One(cs *vrt.Case) {
	r := cs.Rng
	c, what := twoPartyCircuit(cs, r, cs.Idx, vrt.Pick(r, []int{10, 60, 300}))
	if c == nil {
		return
	}
	otk := (cs.Idx / 2) % 4
	if otk == 3 && cs.Idx%5 != 0 {
		otk = r.Intn(3) // RSA is slow: few
	}
	n0, n1 := int(c.Inputs[0].Type.Bits), int(c.Inputs[1].Type.Bits)
	// hand-made circuits declare unsigned arguments; a third of them are
	// relabelled as signed (the gates do not change) so that their values
	// arrive the way signed values do: as negative big integers
	if strings.HasPrefix(what, "generated ") && !strings.HasPrefix(what, "generated program") {
		for i := range c.Inputs {
			if c.Inputs[i].Type.Bits >= 2 && r.Intn(3) == 0 {
				c.Inputs[i].Type.Type = types.TInt
			}
		}
	}
	// asGiven: a signed argument whose top bit is set is handed to the protocol
	// as the negative number it denotes (IOArg.Parse returns "-5" as -5), the
	// reference evaluation keeps the two's complement bits
	asGiven := func(v *big.Int, a circuit.IOArg) *big.Int {
		bits := int(a.Type.Bits)
		if a.Type.Type == types.TInt && bits >= 2 && v.Bit(bits-1) == 1 && r.Intn(4) != 0 {
			cs.Count("signed_inputs_given_as_negative_numbers", 1)
			return new(big.Int).Sub(v, new(big.Int).Lsh(big.NewInt(1), uint(bits)))
		}
		return v
	}
	type pair struct{ x, y *big.Int }
	var pairs []pair
	if n0+n1 <= 8 && otk != 3 {
		for v := 0; v < 1<<uint(n0+n1); v++ {
			pairs = append(pairs, pair{big.NewInt(int64(v & (1<<uint(n0) - 1))), big.NewInt(int64(v >> uint(n0)))})
		}
		if !cs.Thorough() && len(pairs) > 24 {
			p := r.Perm(len(pairs))
			var s []pair
			for _, i := range p[:24] {
				s = append(s, pairs[i])
			}
			pairs = s
		}
	} else {
		np := 6
		if otk == 3 {
			np = 1
		}
		for i := 0; i < np; i++ {
			pairs = append(pairs, pair{r.BoundaryBig(n0), r.BoundaryBig(n1)})
		}
	}
	nontriv := refc.Depends(c)
	// Overlapping sessions: every third case runs its sessions in groups of
	// 2-3 concurrent garbler/evaluator pairs on the one shared *Circuit (a
	// server garbling the same function for several clients); half of these
	// on a single P so that a pooled buffer released by one session is the one
	// the next session's Garble picks up while the first is still using it.
	gx, gy := make([]*big.Int, len(pairs)), make([]*big.Int, len(pairs))
	for i, p := range pairs {
		gx[i], gy[i] = asGiven(p.x, c.Inputs[0]), asGiven(p.y, c.Inputs[1])
	}
	outs := make([]*yaoOut, len(pairs))
	kinds := make([]int, len(pairs))
	overlap := cs.Idx%3 == 1 && len(pairs) >= 2 && otk != 3
	if overlap {
		cs.Count("cases_with_overlapping_sessions_on_one_circuit", 1)
		oneP := r.Bool()
		if oneP {
			defer runtime.GOMAXPROCS(runtime.GOMAXPROCS(1))
			cs.Count("cases_with_overlapping_sessions_single_P", 1)
		}
		for lo := 0; lo < len(pairs); {
			hi := min(len(pairs), lo+r.Range(2, 3))
			var wg sync.WaitGroup
			for i := lo; i < hi; i++ {
				kinds[i] = 2
				rr := r.Fork()
				wg.Add(1)
				go func(i int) {
					defer wg.Done()
					outs[i] = runYao(rr, c, gx[i], gy[i], yaoOpts{ot: otk, kind: 2, stallWin: 30 * time.Second})
				}(i)
			}
			wg.Wait()
			cs.Count("overlapping_session_groups", 1)
			lo = hi
		}
	}
	for pi, p := range pairs {
		kind := kinds[pi]
		o := outs[pi]
		if o == nil {
			kind = 2
			if r.Intn(5) == 0 {
				kind = 3
			}
			opts := yaoOpts{ot: otk, kind: kind, stallWin: 30 * time.Second, verbose: (cs.Idx+pi)%4 == 3, shortReads: []int{0, 0, 16, 0, 0, 255, 0, 1, 0, 0}[(cs.Idx+pi)%10]}
			dying := kind == 2 && r.Intn(12) == 0
			if dying {
				// the garbler's entropy source dies part-way: the session may
				// fail, but a session that reports success must still be right
				opts.randSeed, opts.randFailAfter = r.U64()|1, 32+r.Intn(16*2*(n0+n1+2))
				cs.Count("sessions_with_dying_garbler_entropy", 1)
			}
			o = runYao(r, c, gx[pi], gy[pi], opts)
			if dying && firstPanic(o.g, o.e) == nil && (o.g.err != nil || o.e.err != nil) {
				cs.Count("sessions_aborted_on_dying_entropy", 1)
				cs.Evals++
				continue
			}
		}
		cs.Evals++
		desc := map[string]any{"overlapping": overlap, "circuit": what, "inputs": c.Inputs.String(), "outputs": c.Outputs.String(), "ot": o.otName, "x": p.x.Text(16), "y": p.y.Text(16), "transport": kind}
		cs.SetSample(desc)
		cs.Seen("ot", o.otName)
		if pi := firstPanic(o.g, o.e); pi != nil {
			if pi.InMPC {
				cs.Violate("C02|panic|"+pi.Frame, "protocol party panicked: "+pi.Value, map[string]any{"case": desc, "stack": pi.Stack, "circuit_dump": dumpCircuit(c)})
			} else {
				cs.Inconc("harness panic: " + pi.Value + "\n" + pi.Stack)
			}
			return
		}
		if o.stalled {
			cs.Violate("C02|stall|"+o.otName, "session stalled: both parties blocked in reads for 30 s", map[string]any{"case": desc})
			return
		}
		if o.g.err != nil || o.e.err != nil {
			cs.Violate("C02|error|"+o.otName, fmt.Sprintf("honest session failed: garbler=%v evaluator=%v", o.g.err, o.e.err), map[string]any{"case": desc, "circuit_dump": dumpCircuit(c)})
			return
		}
		flat, err := refc.EvalFlat(c, []*big.Int{refc.Flatten(c.Inputs, []*big.Int{p.x, p.y})})
		if err != nil {
			cs.Inconc(err.Error())
			return
		}
		want := refc.SplitOut(c.Outputs, flat[0])
		if len(o.gRes) != len(want) || len(o.eRes) != len(want) {
			cs.Violate("C02|arity", fmt.Sprintf("result count garbler=%d evaluator=%d, declared outputs=%d", len(o.gRes), len(o.eRes), len(want)), map[string]any{"case": desc})
			return
		}
		for i := range want {
			if o.gRes[i].Cmp(o.eRes[i]) != 0 {
				cs.Violate("C02|parties-disagree", fmt.Sprintf("output %d: garbler %s, evaluator %s", i, o.gRes[i].Text(16), o.eRes[i].Text(16)), map[string]any{"case": desc, "circuit_dump": dumpCircuit(c)})
				return
			}
			if o.gRes[i].Cmp(want[i]) != 0 {
				cs.Violate("C02|wrong-output|"+o.otName, fmt.Sprintf("output %d = %s, plain evaluation gives %s", i, o.gRes[i].Text(16), want[i].Text(16)), map[string]any{"case": desc, "circuit_dump": dumpCircuit(c)})
				return
			}
		}
		// the evaluator's OT got exactly the chosen labels (ground truth at the API boundary)
		if len(o.rec.Sent) == 1 && len(o.erec.Got) == 1 {
			for i, w := range o.rec.Sent[0] {
				l := w.L0
				if o.erec.Flags[0][i] {
					l = w.L1
				}
				if !o.erec.Got[0][i].Equal(l) {
					cs.Violate("C02|ot-label|"+o.otName, fmt.Sprintf("evaluator input wire %d did not receive the chosen label", i), map[string]any{"case": desc})
					return
				}
			}
		}
		if nontriv {
			cs.Key(what, o.otName, p.x.Text(16), p.y.Text(16), fmt.Sprint(vrt.HashBytes([]byte(fmt.Sprint(c.Gates)))))
		}
	}
}
