// Package props holds one monitor per property.
package props

import (
	"os"

	"github.com/markkurossi/mpc/circuit"
	"github.com/markkurossi/mpc/compiler"
	"github.com/markkurossi/mpc/compiler/utils"
	"github.com/markkurossi/mpc/types"

	"verifharness/internal/vrt"
)

func uintT(bits int) types.Info {
	return types.Info{Type: types.TUint, IsConcrete: true, Bits: types.Size(bits), MinBits: types.Size(bits)}
}

func intT(bits int) types.Info {
	return types.Info{Type: types.TInt, IsConcrete: true, Bits: types.Size(bits), MinBits: types.Size(bits)}
}

func init() {
	// the compiler resolves the MPCL library from $MPCLDIR/pkg
	os.Setenv("MPCLDIR", vrt.Repo)
}

// compileMPCL compiles source with params (nil = defaults) and input sizes.
func compileMPCL(src string, params *utils.Params, sizes [][]int) (c *circuit.Circuit, err error, pan *vrt.PanicInfo) {
	if params == nil {
		params = utils.NewParams()
	}
	pan = vrt.Guard(func() {
		c, _, err = compiler.New(params).Compile(src, sizes)
	})
	return
}

// compileMPCLFile compiles a program from a file (native("x.circ") circuits
// are looked up next to it).
func compileMPCLFile(file string, params *utils.Params, sizes [][]int) (c *circuit.Circuit, err error, pan *vrt.PanicInfo) {
	if params == nil {
		params = utils.NewParams()
	}
	pan = vrt.Guard(func() {
		c, _, err = compiler.New(params).CompileFile(file, sizes)
	})
	return
}
