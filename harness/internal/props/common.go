// Package props holds one monitor per property.
package props

import (
	"github.com/markkurossi/mpc/types"
)

func uintT(bits int) types.Info {
	return types.Info{Type: types.TUint, IsConcrete: true, Bits: types.Size(bits), MinBits: types.Size(bits)}
}

func intT(bits int) types.Info {
	return types.Info{Type: types.TInt, IsConcrete: true, Bits: types.Size(bits), MinBits: types.Size(bits)}
}
