package props

import (
	"bytes"
	"fmt"
	"net"
	"os"
	"runtime/pprof"
	"strings"
	"sync"
	"sync/atomic"
	"time"

	"github.com/markkurossi/mpc/p2p"

	"verifharness/internal/vrt"
)

// freePorts probes n free loopback ports from a per-process range.
func freePorts(r *vrt.Rng, n int) []int {
	base := 10000 + (os.Getpid()%180)*100
	var out []int
	for tries := 0; len(out) < n && tries < 2000; tries++ {
		p := base + r.Intn(3000)
		dup := false
		for _, q := range out {
			if q == p {
				dup = true
			}
		}
		if dup {
			continue
		}
		l, err := net.Listen("tcp", fmt.Sprintf("127.0.0.1:%d", p))
		if err != nil {
			continue
		}
		l.Close()
		out = append(out, p)
	}
	return out
}

// blockedConnects inspects a goroutine dump: every goroutine that runs
// (*Network).Connect must be parked (cond wait, accept, read, chan).
func connectsQuiescent(dump string) (int, bool) {
	n := 0
	for _, g := range strings.Split(dump, "\n\n") {
		if !strings.Contains(g, "p2p.(*Network).Connect") {
			continue
		}
		n++
		head := g
		if i := strings.IndexByte(g, '\n'); i > 0 {
			head = g[:i]
		}
		if !(strings.Contains(head, "sync.Cond.Wait") || strings.Contains(head, "IO wait") || strings.Contains(head, "chan receive") || strings.Contains(head, "chan send") || strings.Contains(head, "select") || strings.Contains(head, "semacquire")) {
			return n, false
		}
	}
	return n, n > 0
}

func init() {
	vrt.Register(&vrt.Prop{
		ID: "C19", Level: "exploration",
		Rule: "case = a real loopback mesh of 2-6 parties x 1-4 connections per pair: leader Create first, then Join in a PRNG order with PRNG delays, all Connect calls concurrent with PRNG start delays (every 32nd mesh has one party start 6.5 s late - 3-12 s in thorough - and every 32nd stays idle that long before its connections are used); a verif hook at five points of p2p/network.go (before Accept, after the accepted hello, between need--/Broadcast and addPeer, before Dial, after the dial hello) logs the event order and injects 0-5 ms PRNG delays. " +
			"Oracle: at the moment a party's own Connect returns nil, and again after all Connect calls returned, every party lists every other party exactly once with exactly numConns non-nil connections, and a unique token sent on i.Peers[j].Conns[k] arrives on j.Peers[i].Conns[k] and nowhere else, in both directions (exactly once, no loss, no cross-wiring); in half of the meshes every party also sends on all its connections the moment its own Connect returns, and that early data must arrive first. A Connect error is a violation; a quiescent deadlock (all Connect goroutines parked, no hook event for 6 s, confirmed by two goroutine dumps) is a violation, any other timeout inconclusive. Distinct = hash of the observed hook-event order.",
		Assumptions: []string{"loopback TCP; the kernel's behaviour can be varied only in timing", "the leader's Create precedes every Join, as Join requires"},
		NumCases: func(t string) int {
			if t == "thorough" {
				return 1500
			}
			return 96
		},
		MaxWorkers:  8,
		CaseTimeout: 4 * time.Minute,
		Run:         runC19,
	})
}

// c19Snapshot renders "peer:established connections" of every other party.
func c19Snapshot(nw *p2p.Network, self int) string {
	var parts []string
	for _, p := range nw.Peers {
		if p.ID == self {
			continue
		}
		n := 0
		for _, c := range p.Conns {
			if c != nil {
				n++
			}
		}
		parts = append(parts, fmt.Sprintf("%d:%d", p.ID, n))
	}
	return strings.Join(parts, " ")
}

func runC19(cs *vrt.Case) {
	r := cs.Rng
	P := 2 + cs.Idx%5
	K := 1 + (cs.Idx/5)%4
	relayed := cs.Idx%4 == 2 // the parties reach each other through a relay that reorders connection establishment
	nPorts := P
	if relayed {
		nPorts = 2 * P
	}
	ports := freePorts(r, nPorts)
	if len(ports) < nPorts {
		cs.Inconc("could not find free ports")
		return
	}
	addr := func(i int) string { return fmt.Sprintf("127.0.0.1:%d", ports[i]) }
	leaderAddr := addr(0)
	desc := map[string]any{"parties": P, "conns": K}
	cs.SetSample(desc)
	var relay *c19Relay
	if relayed {
		var ra, la []string
		for i := 0; i < P; i++ {
			la = append(la, addr(i))
			ra = append(ra, addr(P+i))
		}
		var err error
		relay, err = newC19Relay(r.Fork(), ra, la)
		if err != nil {
			cs.Inconc("relay: " + err.Error())
			return
		}
		defer relay.Close()
		leaderAddr = ra[0]
		desc["transport"] = "relay that opens the onward leg of a connection after that of the dialer's next connection"
		cs.Count("meshes_through_reordering_relay", 1)
	}

	// hook: log + delay
	var evMu sync.Mutex
	var events []string
	var nEvents atomic.Int64
	hr := r.Fork()
	delayMode := cs.Idx % 3 // 0: none, 1: small everywhere, 2: larger at the accept-counted point
	p2p.SetVerifHook(func(point string, self, peer, connID int) {
		evMu.Lock()
		events = append(events, fmt.Sprintf("%s:%d<%d#%d", point, self, peer, connID))
		var d time.Duration
		switch delayMode {
		case 1:
			d = time.Duration(hr.Intn(1500)) * time.Microsecond
		case 2:
			if point == "accept-counted" || hr.Intn(4) == 0 {
				d = time.Duration(hr.Intn(5000)) * time.Microsecond
			}
		}
		evMu.Unlock()
		nEvents.Add(1)
		if d > 0 {
			time.Sleep(d)
		}
	})
	defer p2p.SetVerifHook(nil)

	nets := make([]*p2p.Network, P)
	var err error
	nets[0], err = p2p.Create(addr(0), P, K)
	if err != nil {
		cs.Inconc("Create: " + err.Error())
		return
	}
	defer func() {
		for _, nw := range nets {
			if nw != nil {
				nw.Close()
			}
		}
	}()
	order := r.Perm(P - 1)
	for _, oi := range order {
		i := oi + 1
		if r.Intn(3) == 0 {
			time.Sleep(time.Duration(r.Intn(2000)) * time.Microsecond)
		}
		nets[i], err = p2p.Join(leaderAddr, addr(i), i, K)
		if err != nil {
			if strings.Contains(err.Error(), "address already in use") {
				cs.Inconc("port taken: " + err.Error())
				return
			}
			cs.Violate("C19|join-error", "Join failed: "+err.Error(), map[string]any{"case": desc})
			return
		}
	}
	var started atomic.Int64 // Connect calls entered (a late starter is not a deadlock)
	errs := make([]error, P)
	snaps := make([]string, P)
	done := make(chan int, P)
	delays := make([]time.Duration, P)
	for i := range delays {
		delays[i] = time.Duration(r.Intn(3000)) * time.Microsecond
	}
	// a few meshes have a late starter (one party calls Connect seconds after
	// it joined) or stay idle for seconds before their connections are used
	long := 6500 * time.Millisecond
	if cs.Thorough() {
		long = time.Duration(r.Range(3000, 12000)) * time.Millisecond
	}
	var idleBeforeUse time.Duration
	switch cs.Idx % 32 {
	case 5:
		delays[r.Intn(P)] = long
		desc["late_starter_ms"] = long.Milliseconds()
		cs.Count("meshes_with_late_starter", 1)
	case 11:
		idleBeforeUse = long
		desc["idle_before_use_ms"] = long.Milliseconds()
		cs.Count("meshes_idle_before_use", 1)
	}
	early := r.Bool() // every party uses its connections the moment its own Connect returns
	earlyNonce := r.U64()
	if early {
		desc["data_sent_as_soon_as_connect_returns"] = true
		cs.Count("meshes_used_before_all_connects_returned", 1)
	}
	for i := 0; i < P; i++ {
		go func(i int) {
			time.Sleep(delays[i])
			started.Add(1)
			errs[i] = nets[i].Connect()
			if errs[i] == nil {
				// what this party can see at the moment its own Connect
				// returns (the application starts using the mesh now)
				snaps[i] = c19Snapshot(nets[i], i)
				if early {
					// ... and uses it at once: data sent on a connection the
					// moment Connect returned must arrive, even if the peer's
					// own setup is still in progress
					for _, pj := range nets[i].Peers {
						if pj.ID == i {
							continue
						}
						for k := 0; k < len(pj.Conns) && k < K; k++ {
							if c := pj.Conns[k]; c != nil {
								if err := c.SendString(fmt.Sprintf("early %d->%d #%d %x", i, pj.ID, k, earlyNonce)); err == nil {
									c.Flush()
								}
							}
						}
					}
				}
			}
			done <- i
		}(i)
	}
	finished := 0
	lastEv := nEvents.Load()
	_ = started.Load()
	idle := 0
	for finished < P {
		select {
		case <-done:
			finished++
			idle = 0
		case <-time.After(time.Second):
			if ev := nEvents.Load(); ev != lastEv {
				lastEv, idle = ev, 0
				continue
			}
			if started.Load() < int64(P) {
				continue
			}
			idle++
			if idle >= 6 {
				var b1, b2 bytes.Buffer
				pprof.Lookup("goroutine").WriteTo(&b1, 2)
				time.Sleep(2 * time.Second)
				pprof.Lookup("goroutine").WriteTo(&b2, 2)
				n1, q1 := connectsQuiescent(b1.String())
				n2, q2 := connectsQuiescent(b2.String())
				if q1 && q2 && n1 == n2 && nEvents.Load() == lastEv {
					evMu.Lock()
					tail := events
					if len(tail) > 40 {
						tail = tail[len(tail)-40:]
					}
					evMu.Unlock()
					cs.Violate("C19|connect-deadlock", fmt.Sprintf("connection setup does not terminate: %d of %d Connect calls returned, the other %d are parked and nothing has moved for 8 s", finished, P, n1),
						map[string]any{"case": desc, "last_events": tail, "join_order": order, "stacks": trunc(b2.String(), 6000)})
					return
				}
				if idle > 120 {
					cs.Inconc("Connect did not finish and the parties are not quiescent")
					return
				}
			}
		}
	}
	for i, e := range errs {
		if e != nil {
			evMu.Lock()
			tail := append([]string(nil), events...)
			evMu.Unlock()
			if len(tail) > 40 {
				tail = tail[len(tail)-40:]
			}
			cs.Violate("C19|connect-error", fmt.Sprintf("Connect of party %d failed: %v", i, e), map[string]any{"case": desc, "join_order": order, "last_events": tail})
			return
		}
	}
	// structure at the moment each Connect returned
	wantSnap := func(i int) string {
		var parts []string
		for j := 0; j < P; j++ {
			if j != i {
				parts = append(parts, fmt.Sprintf("%d:%d", j, K))
			}
		}
		return strings.Join(parts, " ")
	}
	for i := range nets {
		if snaps[i] != wantSnap(i) {
			evMu.Lock()
			tail := append([]string(nil), events...)
			evMu.Unlock()
			if len(tail) > 40 {
				tail = tail[len(tail)-40:]
			}
			cs.Violate("C19|incomplete-on-return", fmt.Sprintf("when Connect of party %d returned, its peer table (peer:connections) was [%s], a complete mesh is [%s]", i, snaps[i], wantSnap(i)),
				map[string]any{"case": desc, "join_order": order, "last_events": tail})
			return
		}
	}
	// structure after every Connect returned
	for i, nw := range nets {
		seen := map[int]bool{}
		for _, p := range nw.Peers {
			if seen[p.ID] {
				cs.Violate("C19|duplicate-peer", fmt.Sprintf("party %d lists peer %d twice", i, p.ID), map[string]any{"case": desc})
				return
			}
			seen[p.ID] = true
			if p.ID == i {
				continue
			}
			nn := 0
			for _, c := range p.Conns {
				if c != nil {
					nn++
				}
			}
			if nn != K || len(p.Conns) != K {
				cs.Violate("C19|connection-count", fmt.Sprintf("party %d has %d connections (%d slots) to peer %d, configured %d", i, nn, len(p.Conns), p.ID, K), map[string]any{"case": desc})
				return
			}
		}
		if len(seen) != P {
			cs.Violate("C19|missing-peer", fmt.Sprintf("party %d knows %d parties, the mesh has %d", i, len(seen), P), map[string]any{"case": desc})
			return
		}
	}
	if idleBeforeUse > 0 {
		time.Sleep(idleBeforeUse)
	}
	// tokens: i -> j on connection k, both directions, exactly once
	peerOf := func(nw *p2p.Network, id int) *p2p.Peer {
		for _, p := range nw.Peers {
			if p.ID == id {
				return p
			}
		}
		return nil
	}
	nonce := r.U64()
	var wg sync.WaitGroup
	var tmu sync.Mutex
	var bad []string
	for i := 0; i < P; i++ {
		for j := 0; j < P; j++ {
			if i == j {
				continue
			}
			wg.Add(1)
			go func(i, j int) {
				defer wg.Done()
				// party i's view of peer j: send on every k, then receive what j sent
				pj := peerOf(nets[i], j)
				for k := 0; k < K; k++ {
					c := pj.Conns[k]
					if err := c.SendString(fmt.Sprintf("tok %d->%d #%d %x", i, j, k, nonce)); err == nil {
						err = c.Flush()
					} else {
						tmu.Lock()
						bad = append(bad, fmt.Sprintf("send %d->%d #%d: %v", i, j, k, err))
						tmu.Unlock()
					}
				}
				for k := 0; k < K && early; k++ {
					got, err := pj.Conns[k].ReceiveString()
					want := fmt.Sprintf("early %d->%d #%d %x", j, i, k, earlyNonce)
					if err != nil || got != want {
						tmu.Lock()
						bad = append(bad, fmt.Sprintf("party %d, connection %d to peer %d: the data peer %d sent as soon as its Connect returned did not arrive: received %q (%v), expected %q", i, k, j, j, got, err, want))
						tmu.Unlock()
						return
					}
				}
				for k := 0; k < K; k++ {
					c := pj.Conns[k]
					got, err := c.ReceiveString()
					want := fmt.Sprintf("tok %d->%d #%d %x", j, i, k, nonce)
					if err != nil || got != want {
						tmu.Lock()
						bad = append(bad, fmt.Sprintf("party %d, connection %d to peer %d: received %q (%v), expected %q", i, k, j, got, err, want))
						tmu.Unlock()
					}
				}
			}(i, j)
		}
	}
	tokDone := make(chan struct{})
	go func() { wg.Wait(); close(tokDone) }()
	select {
	case <-tokDone:
	case <-time.After(60 * time.Second):
		cs.Violate("C19|token-lost", "a token sent on an established connection never arrived (60 s)", map[string]any{"case": desc})
		return
	}
	cs.Evals += int64(P * (P - 1) * K)
	if len(bad) > 0 {
		cs.Violate("C19|cross-wired", "token exchange failed: "+bad[0], map[string]any{"case": desc, "all": bad})
		return
	}
	evMu.Lock()
	// the accept order as seen by each party is the interleaving signature
	var sig []string
	for _, e := range events {
		if strings.HasPrefix(e, "accept-hello") {
			sig = append(sig, e)
		}
	}
	evMu.Unlock()
	cs.Key(fmt.Sprint(P, K), strings.Join(sig, ","))
	cs.Count("meshes_formed", 1)
	if relay != nil {
		f, sw := relay.stats()
		cs.Count("relay_connections_forwarded", int64(f))
		cs.Count("relay_connection_pairs_established_in_swapped_order", int64(sw))
	}
	cs.Count("hook_events", int64(nEvents.Load()))
	cs.Seen("mesh_shapes", fmt.Sprintf("%dx%d", P, K))
}
