package props

import (
	"crypto/elliptic"
	"errors"
	"fmt"
	"io"

	"github.com/markkurossi/mpc/ot"

	"verifharness/internal/otx"
	"verifharness/internal/vrt"
)

var otSizes = []int{1, 2, 3, 7, 8, 9, 15, 16, 17, 63, 64, 65, 127, 128, 129, 255, 256, 257, 511, 512, 513, 1023, 1024, 1025, 1535, 1537, 2049}

func choiceVec(r *vrt.Rng, n, pattern int) []bool {
	f := make([]bool, n)
	for i := range f {
		switch pattern {
		case 0:
		case 1:
			f[i] = true
		case 2:
			f[i] = i%2 == 0
		case 3:
			f[i] = i == n-1 // only the last position
		default:
			f[i] = r.Bool()
		}
	}
	return f
}

func randWires(r *vrt.Rng, n int) []ot.Wire {
	w := make([]ot.Wire, n)
	for i := range w {
		w[i] = ot.Wire{L0: ot.Label{D0: r.U64(), D1: r.U64()}, L1: ot.Label{D0: r.U64(), D1: r.U64()}}
	}
	return w
}

// otImpl builds a fresh (sender, receiver) pair of an implementation.
//
//	0 RSA-1024, 1 CO, 2..5 COT(CO) {semi,mal}x{unshared,shared}, 6..9 ROT likewise
func otImpl(r *vrt.Rng, impl int) (s, rc ot.OT, name string, rot bool, shared bool) {
	return otImplSrc(func() io.Reader { return r.Fork() }, impl)
}

// otImplSrc is otImpl with the implementations' entropy drawn from src.
func otImplSrc(src func() io.Reader, impl int) (s, rc ot.OT, name string, rot bool, shared bool) {
	switch {
	case impl == 0:
		return ot.NewRSA(src(), 1024), ot.NewRSA(src(), 1024), "RSA-1024", false, false
	case impl == 1:
		return ot.NewCO(src()), ot.NewCO(src()), "CO", false, false
	case impl <= 5:
		mal, sh := (impl-2)&1 == 1, (impl-2)&2 == 2
		return ot.NewCOT(ot.NewCO(src()), src(), mal, sh), ot.NewCOT(ot.NewCO(src()), src(), mal, sh),
			fmt.Sprintf("COT(mal=%v,shared=%v)", mal, sh), false, sh
	default:
		mal, sh := (impl-6)&1 == 1, (impl-6)&2 == 2
		return ot.NewROT(ot.NewCO(src()), src(), mal, sh), ot.NewROT(ot.NewCO(src()), src(), mal, sh),
			fmt.Sprintf("ROT(mal=%v,shared=%v)", mal, sh), true, sh
	}
}

func init() {
	vrt.Register(&vrt.Prop{
		ID: "C06", Level: "exploration",
		Rule: "case = (OT implementation in {RSA-1024, CO, COT, ROT} x {semi-honest, malicious} x {shared, unshared}, transport in {ot.Pipe, unbounded buffer, p2p.Conn over fragmenting tap}, 1-4 consecutive batches with sizes from the boundary list or PRNG, choice pattern) " +
			"or (raw IKNP over an ideal base OT with monitor-chosen Delta, label and packed-bit forms, several calls on one instance) or (CO helper round trip on a curve). " +
			"Oracle: receiver's value at i == sender's label selected by choice i; IKNP: recv_i == sent_i xor choice_i*Delta and r_i == s_i xor b_i*Delta_0. Distinct = (kind, implementation, sizes, pattern, Delta_0).",
		Assumptions: []string{"the ideal base OT (harness code) used under raw IKNP is correct", "sender and receiver run in one process as goroutines"},
		NumCases: func(t string) int {
			if t == "thorough" {
				return 3000
			}
			return 320
		},
		Run: runC06,
	})
}

// runC06: most cases run alone; some run as 2-3 concurrent sessions of the
// same case shape in one process (package-level state in the code under test).
func runC06(cs *vrt.Case) {
	if cs.Idx%4 == 3 {
		cs.Twins(2+(cs.Idx/7)%2, func(sub *vrt.Case, _ *vrt.Rng) { runC06One(sub) })
		return
	}
	runC06One(cs)
}

func runC06One(cs *vrt.Case) {
	r := cs.Rng
	switch k := cs.Idx % 8; {
	case k == 3 && (cs.Idx/8)%2 == 0:
		c06Roles(cs, r)
	case k == 2 && (cs.Idx/8)%2 == 1:
		c06Broken(cs, r)
	case k < 4:
		c06Impl(cs, r)
	case k < 7:
		c06IKNP(cs, r)
	default:
		c06Helpers(cs, r)
	}
}

// c06Roles: two OT instances of one implementation (RSA or Chou-Orlandi) swap roles between
// sessions on one connection (A sends to B, then B sends to A, then A to B
// again ...), as two peers do that garble for each other in turn. Every
// session re-initialises for its role; the receiver must get the chosen labels
// in every session.
func c06Roles(cs *vrt.Case, r *vrt.Rng) {
	// only the implementations that allow it: COT and ROT refuse a second role by
	// design ("already initialized as sender"), which is their documented contract
	impl := 1
	if cs.Idx%3 == 0 {
		impl = 0 // RSA key generation is slow: a third of the draws
	}
	a, b, name, _, _ := otImpl(r, impl)
	inst := [2]ot.OT{a, b}
	d := newDuplex(r, vrt.Pick(r, []int{1, 2}), false)
	ends := [2]ot.IO{d.A, d.B}
	nsess := r.Range(3, 5)
	max := 300
	if impl == 0 {
		max = 24
	}
	type sess struct {
		snd   int
		wires []ot.Wire
		flags []bool
		got   []ot.Label
	}
	var ss []sess
	for k := 0; k < nsess; k++ {
		n := 1 + r.Intn(max)
		ss = append(ss, sess{snd: k % 2, wires: randWires(r, n), flags: choiceVec(r, n, 4), got: make([]ot.Label, n)})
	}
	if r.Bool() {
		ss[len(ss)-1].snd = ss[len(ss)-2].snd // and sometimes the same role twice in a row
	}
	party := func(me int) func() error {
		return func() error {
			for k := range ss {
				if ss[k].snd == me {
					if err := inst[me].InitSender(ends[me]); err != nil {
						return fmt.Errorf("session %d InitSender: %w", k, err)
					}
					if err := inst[me].Send(ss[k].wires); err != nil {
						return fmt.Errorf("session %d Send: %w", k, err)
					}
				} else {
					if err := inst[me].InitReceiver(ends[me]); err != nil {
						return fmt.Errorf("session %d InitReceiver: %w", k, err)
					}
					if err := inst[me].Receive(ss[k].flags, ss[k].got); err != nil {
						return fmt.Errorf("session %d Receive: %w", k, err)
					}
				}
			}
			return nil
		}
	}
	ra, rb := runPair(d, party(0), party(1))
	var roles []int
	for _, x := range ss {
		roles = append(roles, x.snd)
	}
	desc := map[string]any{"kind": "ot.OT, two instances swapping roles", "impl": name, "sender_per_session": roles}
	cs.SetSample(desc)
	cs.Seen("implementations", name)
	cs.Count("role_swapping_session_groups", 1)
	if pi := firstPanic(ra, rb); pi != nil {
		if pi.InMPC {
			cs.Violate("C06|panic|"+name+"|"+pi.Frame, "OT panicked: "+pi.Value, map[string]any{"case": desc, "stack": pi.Stack})
		} else {
			cs.Inconc("harness panic " + pi.Value + "\n" + pi.Stack)
		}
		return
	}
	if ra.err != nil || rb.err != nil {
		cs.Violate("C06|error|roles|"+name, fmt.Sprintf("honest OT sessions with swapped roles failed: A=%v B=%v", ra.err, rb.err), map[string]any{"case": desc})
		return
	}
	for k, x := range ss {
		for i := range x.wires {
			want := x.wires[i].L0
			if x.flags[i] {
				want = x.wires[i].L1
			}
			cs.Evals++
			if !x.got[i].Equal(want) {
				cs.Violate("C06|wrong-label|roles|"+name, fmt.Sprintf("%s: session %d (sender %d): position %d of %d did not receive the chosen label", name, k, x.snd, i, len(x.wires)), map[string]any{"case": desc})
				return
			}
		}
	}
	cs.Key("roles", name, fmt.Sprint(roles))
}

// c06Broken: the transport of one party breaks at a PRNG-chosen receive call
// (sized from a clean run of the same batches). The transfer may fail; but a
// batch for which BOTH Send and Receive reported success must have delivered
// exactly the chosen labels - a swallowed transport error would hand the
// receiver made-up labels.
func c06Broken(cs *vrt.Case, r *vrt.Rng) {
	impl := 1 + r.Intn(9)
	nb := r.Range(1, 3)
	var wires [][]ot.Wire
	var flags [][]bool
	var sizes []int
	for b := 0; b < nb; b++ {
		n := 1 + r.Intn(400)
		sizes = append(sizes, n)
		wires = append(wires, randWires(r, n))
		flags = append(flags, choiceVec(r, n, 4))
	}
	seed := r.U64()
	side := r.Intn(2) // whose transport breaks: 0 sender, 1 receiver
	run := func(failAt int) (got [][]ot.Label, okS, okR []bool, calls int, name string, pan *vrt.PanicInfo) {
		rr := vrt.NewRng(seed)
		snd, rcv, nm, _, _ := otImpl(rr, impl)
		name = nm
		d := newDuplex(rr, vrt.Pick(rr, []int{0, 1, 2}), false)
		ios := [2]ot.IO{d.A, d.B}
		fio := &otx.FaultIO{IO: ios[side], FailAt: failAt}
		ios[side] = fio
		got = make([][]ot.Label, nb)
		okS, okR = make([]bool, nb), make([]bool, nb)
		ra, rb := runPair(d, func() error {
			if err := snd.InitSender(ios[0]); err != nil {
				return err
			}
			for b := range wires {
				w := append([]ot.Wire(nil), wires[b]...)
				if err := snd.Send(w); err != nil {
					return err
				}
				if impl >= 6 {
					wires[b] = w // random OT: the sender's labels are an output
				}
				okS[b] = true
			}
			return nil
		}, func() error {
			if err := rcv.InitReceiver(ios[1]); err != nil {
				return err
			}
			for b := range flags {
				got[b] = make([]ot.Label, len(flags[b]))
				if err := rcv.Receive(flags[b], got[b]); err != nil {
					return err
				}
				okR[b] = true
			}
			return nil
		})
		return got, okS, okR, fio.Calls, name, firstPanic(ra, rb)
	}
	_, okS, okR, calls, name, pan := run(0)
	if pan != nil || calls == 0 || !okS[nb-1] || !okR[nb-1] {
		cs.Inconc("clean OT run for sizing failed")
		return
	}
	for trial := 0; trial < 4; trial++ {
		failAt := 1 + r.Intn(calls)
		if trial%2 == 1 {
			failAt = calls - r.Intn(min(calls, 6)) // the last messages
		}
		got, okS, okR, _, _, pan := run(failAt)
		cs.Evals++
		cs.Count("transfers_with_a_broken_transport", 1)
		desc := map[string]any{"kind": "ot.OT, transport breaks", "impl": name, "sizes": sizes, "broken_side": []string{"sender", "receiver"}[side], "fail_at_receive_call": failAt, "of": calls}
		cs.SetSample(desc)
		if pan != nil {
			cs.Count("broken_transport_panics", 1) // not what this property forbids
			continue
		}
		for b := range wires {
			if !okS[b] || !okR[b] {
				continue
			}
			cs.Count("batches_reported_complete_by_both", 1)
			for i := range wires[b] {
				want := wires[b][i].L0
				if flags[b][i] {
					want = wires[b][i].L1
				}
				if !got[b][i].Equal(want) {
					cs.Violate("C06|wrong-label|success-across-broken-transport|"+name, fmt.Sprintf("%s: both parties reported success for batch %d although the %s's transport broke at receive call %d of %d, and position %d did not receive the chosen label", name, b, []string{"sender", "receiver"}[side], failAt, calls, i), map[string]any{"case": desc})
					return
				}
			}
		}
	}
	cs.Key("broken", name, fmt.Sprint(sizes, side))
}

func pickSize(cs *vrt.Case, r *vrt.Rng, max int) int {
	for {
		var n int
		if r.Chance(2, 3) {
			// walk the boundary list systematically
			n = otSizes[(cs.Idx/8+r.Intn(3))%len(otSizes)]
		} else {
			n = 1 + r.Intn(max)
		}
		if n <= max {
			return n
		}
	}
}

func c06Impl(cs *vrt.Case, r *vrt.Rng) {
	impl := (cs.Idx / 8) % 10
	if cs.Idx%8 >= 2 {
		impl = r.Intn(10)
	}
	snd, rcv, name, isROT, shared := otImpl(r, impl)
	// every tenth case: the entropy sources of both parties die after a PRNG
	// number of bytes. The transfer may fail; if both parties report success
	// the receiver must still hold exactly the chosen labels.
	dying := cs.Idx%10 == 7 && impl != 0
	if dying {
		snd, rcv, name, isROT, shared = otImplSrc(func() io.Reader {
			return &failingReader{r: r.Fork(), left: r.Intn(vrt.Pick(r, []int{300, 3000, 9000, 30000, 200000}))}
		}, impl)
		cs.Count("transfers_with_dying_entropy", 1)
	}
	max := 2100
	if impl == 0 {
		max = 40
	}
	if !cs.Thorough() && impl == 1 && cs.Idx%8 >= 2 {
		max = 600 // plain Chou-Orlandi costs ~150 us per transfer: the systematic cases keep the full size list
	}
	nb := r.Range(1, 4)
	var sizes []int
	var wires [][]ot.Wire
	var flags [][]bool
	var got [][]ot.Label
	pat := r.Intn(6)
	for b := 0; b < nb; b++ {
		n := pickSize(cs, r, max)
		sizes = append(sizes, n)
		wires = append(wires, randWires(r, n))
		flags = append(flags, choiceVec(r, n, pat))
		got = append(got, make([]ot.Label, n))
		if r.Bool() {
			// a recycled destination: the caller's slice still holds old labels
			for i := range got[b] {
				got[b][i] = ot.Label{D0: r.U64(), D1: r.U64()}
			}
			cs.Count("receives_into_a_destination_that_holds_old_labels", 1)
		}
	}
	tk := r.Intn(3)
	d := newDuplex(r, tk, false)
	reinit := shared && r.Bool()
	ra, rb := runPair(d, func() error {
		if err := snd.InitSender(d.A); err != nil {
			return fmt.Errorf("InitSender: %w", err)
		}
		for b := range wires {
			if b > 0 && reinit {
				if err := snd.InitSender(d.A); err != nil {
					return fmt.Errorf("re-InitSender: %w", err)
				}
			}
			if err := snd.Send(wires[b]); err != nil {
				return fmt.Errorf("Send batch %d: %w", b, err)
			}
		}
		return nil
	}, func() error {
		if err := rcv.InitReceiver(d.B); err != nil {
			return fmt.Errorf("InitReceiver: %w", err)
		}
		for b := range flags {
			if b > 0 && reinit {
				if err := rcv.InitReceiver(d.B); err != nil {
					return fmt.Errorf("re-InitReceiver: %w", err)
				}
			}
			if err := rcv.Receive(flags[b], got[b]); err != nil {
				return fmt.Errorf("Receive batch %d: %w", b, err)
			}
		}
		return nil
	})
	desc := map[string]any{"kind": "ot.OT", "impl": name, "transport": []string{"ot.Pipe", "buffer", "p2p.Conn/tap"}[tk], "sizes": sizes, "pattern": pat, "reinit": reinit}
	cs.SetSample(desc)
	cs.Seen("implementations", name)
	if dying && (ra.pan != nil || rb.pan != nil || ra.err != nil || rb.err != nil) {
		cs.Count("transfers_failed_on_dying_entropy", 1) // allowed: only a reported success is judged
		return
	}
	if ra.pan != nil || rb.pan != nil {
		pi := ra.pan
		if pi == nil {
			pi = rb.pan
		}
		if pi.InMPC {
			cs.Violate("C06|panic|"+name+"|"+pi.Frame, "OT panicked: "+pi.Value, map[string]any{"case": desc, "stack": pi.Stack})
		} else {
			cs.Inconc("harness panic " + pi.Value + "\n" + pi.Stack)
		}
		return
	}
	if errors.Is(ra.err, errDeadlock) || errors.Is(rb.err, errDeadlock) {
		cs.Violate("C06|no-termination|"+name, fmt.Sprintf("honest OT does not terminate (quiescent deadlock): sender=%v receiver=%v", ra.err, rb.err), map[string]any{"case": desc})
		return
	}
	if ra.err != nil || rb.err != nil {
		cs.Violate("C06|error|"+name, fmt.Sprintf("honest OT failed: sender=%v receiver=%v", ra.err, rb.err), map[string]any{"case": desc})
		return
	}
	for b := range wires {
		bad := 0
		first := -1
		for i := range wires[b] {
			want := wires[b][i].L0
			if flags[b][i] {
				want = wires[b][i].L1
			}
			cs.Evals++
			if !got[b][i].Equal(want) {
				if first < 0 {
					first = i
				}
				bad++
			}
		}
		if bad > 0 {
			cs.Violate("C06|wrong-label|"+name, fmt.Sprintf("%s: %d of %d positions of batch %d did not receive the chosen label (first %d)", name, bad, len(wires[b]), b, first),
				map[string]any{"case": desc, "batch": b, "first_bad": first})
			return
		}
		if isROT {
			// a random OT must still give two different labels per position
			for i := range wires[b] {
				if wires[b][i].L0.Equal(wires[b][i].L1) {
					cs.Violate("C06|rot-equal-labels|"+name, "ROT produced identical labels for both choices", map[string]any{"case": desc})
					return
				}
			}
		}
	}
	cs.Key("impl", name, fmt.Sprint(sizes, pat, tk, reinit))
}

func c06IKNP(cs *vrt.Case, r *vrt.Rng) {
	b1, b2 := otx.NewIdealPair()
	io1, io2 := otx.NewBufIOPair()
	delta := ot.Label{D0: r.U64(), D1: r.U64()}
	d0 := uint((cs.Idx / 8) & 1)
	delta.SetBit(0, d0)
	ncalls := r.Range(1, 4)
	type call struct {
		bits bool
		mal  bool
		n    int
		b    []bool
	}
	var calls []call
	pat := r.Intn(6)
	for i := 0; i < ncalls; i++ {
		c := call{bits: r.Bool(), mal: r.Intn(3) == 0, n: pickSize(cs, r, 2100)}
		if cs.Idx%8 == 4 {
			c.bits = true
		}
		c.b = choiceVec(r, c.n, pat)
		calls = append(calls, c)
	}
	// some destinations are recycled buffers that still hold old contents
	dirty := make([]bool, ncalls)
	dirtyFill := make([]uint64, ncalls)
	for i := range dirty {
		dirty[i], dirtyFill[i] = r.Intn(3) == 0, r.U64()
		if dirty[i] {
			cs.Count("receives_into_a_destination_that_holds_old_labels", 1)
		}
	}
	sent := make([][]ot.Label, ncalls)
	recv := make([][]ot.Label, ncalls)
	sbits := make([][]uint64, ncalls)
	rbits := make([][]uint64, ncalls)
	d := &duplex{A: io1, B: io2, doneA: io1.Close, doneB: io2.Close, finish: func() {}}
	ra, rb := runPair(d, func() error {
		s, err := ot.NewIKNPSender(b1, io1, r.Fork(), &delta)
		if err != nil {
			return err
		}
		for i, c := range calls {
			if c.bits {
				sbits[i] = make([]uint64, (c.n+63)/64)
				if dirty[i] {
					for k := range sbits[i] {
						sbits[i][k] = ^dirtyFill[i]
					}
				}
				if err := s.SendBits(c.n, sbits[i]); err != nil {
					return fmt.Errorf("SendBits: %w", err)
				}
			} else {
				sent[i], err = s.Send(c.n, c.mal)
				if err != nil {
					return fmt.Errorf("Send: %w", err)
				}
			}
		}
		return nil
	}, func() error {
		rc, err := ot.NewIKNPReceiver(b2, io2, r.Fork())
		if err != nil {
			return err
		}
		for i, c := range calls {
			if c.bits {
				ch := make([]uint64, (c.n+63)/64)
				for k, f := range c.b {
					if f {
						ch[k/64] |= 1 << uint(k%64)
					}
				}
				rbits[i] = make([]uint64, (c.n+63)/64)
				if dirty[i] {
					for k := range rbits[i] {
						rbits[i][k] = dirtyFill[i]
					}
				}
				if err := rc.ReceiveBits(ch, rbits[i], c.n); err != nil {
					return fmt.Errorf("ReceiveBits: %w", err)
				}
			} else {
				recv[i] = make([]ot.Label, c.n)
				if dirty[i] {
					for k := range recv[i] {
						recv[i][k] = ot.Label{D0: dirtyFill[i] + uint64(k), D1: ^dirtyFill[i]}
					}
				}
				if err := rc.Receive(c.b, recv[i], c.mal); err != nil {
					return fmt.Errorf("Receive: %w", err)
				}
			}
		}
		return nil
	})
	var shape []string
	for _, c := range calls {
		shape = append(shape, fmt.Sprintf("%s%d%s", map[bool]string{true: "bits", false: "labels"}[c.bits], c.n, map[bool]string{true: "m", false: ""}[c.mal && !c.bits]))
	}
	desc := map[string]any{"kind": "raw IKNP", "delta_bit0": d0, "calls": shape, "pattern": pat}
	cs.SetSample(desc)
	if pi := firstPanic(ra, rb); pi != nil {
		if pi.InMPC {
			cs.Violate("C06|panic|IKNP|"+pi.Frame, "IKNP panicked: "+pi.Value, map[string]any{"case": desc, "stack": pi.Stack})
		} else {
			cs.Inconc("harness panic " + pi.Value + "\n" + pi.Stack)
		}
		return
	}
	if ra.err != nil || rb.err != nil {
		cs.Violate("C06|error|IKNP", fmt.Sprintf("honest IKNP failed: sender=%v receiver=%v", ra.err, rb.err), map[string]any{"case": desc})
		return
	}
	for i, c := range calls {
		bad, first := 0, -1
		for k := 0; k < c.n; k++ {
			cs.Evals++
			if c.bits {
				s := sbits[i][k/64] >> uint(k%64) & 1
				rr := rbits[i][k/64] >> uint(k%64) & 1
				want := s
				if c.b[k] {
					want ^= uint64(d0)
				}
				if rr != want {
					bad++
					if first < 0 {
						first = k
					}
				}
			} else {
				want := sent[i][k]
				if c.b[k] {
					want.Xor(delta)
				}
				if !recv[i][k].Equal(want) {
					bad++
					if first < 0 {
						first = k
					}
				}
			}
		}
		if bad > 0 {
			form := "labels"
			tailClass := ""
			if c.bits {
				form = "bits"
				if first >= c.n-c.n%64 && c.n%64 != 0 {
					tailClass = "|partial-last-word"
				}
			}
			cs.Violate("C06|iknp-correlation|"+form+tailClass, fmt.Sprintf("IKNP %s form, n=%d, Delta_0=%d: %d positions break r_i = s_i xor b_i*Delta (first %d)", form, c.n, d0, bad, first),
				map[string]any{"case": desc, "call": i, "n": c.n, "bad": bad, "first_bad": first})
			return
		}
	}
	cs.Key("iknp", fmt.Sprint(d0, shape, pat))
	cs.Seen("iknp_n_mod_64", fmt.Sprint(calls[0].n%64))
}

func firstPanic(rs ...partyResult) *vrt.PanicInfo {
	for _, r := range rs {
		if r.pan != nil {
			return r.pan
		}
	}
	return nil
}

func c06Helpers(cs *vrt.Case, r *vrt.Rng) {
	curves := []elliptic.Curve{elliptic.P224(), elliptic.P256(), elliptic.P384(), elliptic.P521()}
	cv := curves[(cs.Idx/8)%4]
	n := []int{1, 2, 7, 8, 9, 33, 64}[r.Intn(7)]
	if cv == elliptic.P384() || cv == elliptic.P521() {
		n = 1 + n%9
	}
	wires := randWires(r, n)
	bits := choiceVec(r, n, r.Intn(6))
	desc := map[string]any{"kind": "CO helpers", "curve": cv.Params().Name, "n": n}
	cs.SetSample(desc)
	var labels []ot.Label
	var err error
	pi := vrt.Guard(func() {
		var setup ot.COSenderSetup
		setup, err = ot.GenerateCOSenderSetup(r.Fork(), cv)
		if err != nil {
			return
		}
		var bundle ot.COChoiceBundle
		var pts []ot.ECPoint
		bundle, pts, err = ot.BuildCOChoices(r.Fork(), cv, setup.Ax, setup.Ay, bits)
		if err != nil {
			return
		}
		var ct []ot.LabelCiphertext
		ct, err = ot.EncryptCOCiphertexts(cv, setup, pts, wires)
		if err != nil {
			return
		}
		labels, err = ot.DecryptCOCiphertexts(cv, bundle, ct)
	})
	if pi != nil {
		cs.Violate("C06|panic|helpers|"+pi.Frame, "CO helper panicked: "+pi.Value, map[string]any{"case": desc, "stack": pi.Stack})
		return
	}
	if err != nil {
		cs.Violate("C06|error|helpers", "honest CO helper round trip failed: "+err.Error(), map[string]any{"case": desc})
		return
	}
	for i := range wires {
		want := wires[i].L0
		if bits[i] {
			want = wires[i].L1
		}
		cs.Evals++
		if i >= len(labels) || !labels[i].Equal(want) {
			cs.Violate("C06|wrong-label|helpers", fmt.Sprintf("CO helpers on %s: position %d did not decrypt to the chosen label", cv.Params().Name, i), map[string]any{"case": desc})
			return
		}
	}
	cs.Key("helpers", cv.Params().Name, fmt.Sprint(n, bits))
	cs.Seen("curves", cv.Params().Name)
}
