package props

import (
	"fmt"
	"math/big"
	"reflect"
	"strings"
	"unicode"

	mpc "github.com/markkurossi/mpc"
	"github.com/markkurossi/mpc/circuit"
	"github.com/markkurossi/mpc/types"

	"verifharness/internal/vrt"
)

var c13Widths = []int{1, 2, 3, 4, 7, 8, 9, 15, 16, 17, 31, 32, 33, 63, 64, 65, 100, 127, 128, 129, 130}

// member is one scalar/array member of an argument with its value in the
// three forms: ground-truth bits, text, Go value.
type c13Member struct {
	arg   circuit.IOArg
	truth *big.Int // value's bits at the member's width (little-endian two's complement per element)
	text  string
	goVal any
	hasGo bool
	desc  string
}

func twos(v *big.Int, bits int) *big.Int {
	m := new(big.Int).Lsh(big.NewInt(1), uint(bits))
	r := new(big.Int).Mod(v, m)
	return r
}

func spellInt(r *vrt.Rng, v *big.Int) string {
	if v.Sign() < 0 {
		if r.Bool() {
			return v.Text(10)
		}
		return "-0x" + new(big.Int).Neg(v).Text(16)
	}
	switch r.Intn(4) {
	case 0:
		return "0x" + v.Text(16)
	case 1:
		return "0b" + v.Text(2)
	case 2:
		if v.Sign() > 0 {
			return "0o" + v.Text(8)
		}
	}
	return v.Text(10)
}

func goInt(r *vrt.Rng, v *big.Int, signed bool) (any, bool) {
	if signed {
		if !v.IsInt64() {
			return nil, false
		}
		x := v.Int64()
		var opts []any
		if x >= -128 && x <= 127 {
			opts = append(opts, int8(x))
		}
		if x >= -32768 && x <= 32767 {
			opts = append(opts, int16(x))
		}
		if x >= -1<<31 && x < 1<<31 {
			opts = append(opts, int32(x))
		}
		opts = append(opts, x)
		return vrt.Pick(r, opts), true
	}
	if !v.IsUint64() {
		return nil, false
	}
	x := v.Uint64()
	var opts []any
	if x <= 0xff {
		opts = append(opts, uint8(x))
	}
	if x <= 0xffff {
		opts = append(opts, uint16(x))
	}
	if x <= 0xffffffff {
		opts = append(opts, uint32(x))
	}
	opts = append(opts, x)
	return vrt.Pick(r, opts), true
}

func c13GenMember(r *vrt.Rng, idx int) c13Member {
	name := fmt.Sprintf("m%d", idx)
	switch k := r.Intn(10); {
	case k == 0:
		b := r.Bool()
		m := c13Member{arg: circuit.IOArg{Name: name, Type: types.Bool}, truth: big.NewInt(int64(b2i(b))), goVal: b, hasGo: true}
		if b {
			m.text = vrt.Pick(r, []string{"1", "t", "true"})
		} else {
			m.text = vrt.Pick(r, []string{"0", "f", "false"})
		}
		m.desc = "bool"
		return m
	case k <= 6:
		w := vrt.Pick(r, c13Widths)
		signed := r.Bool()
		var v *big.Int
		if signed {
			// value in [-2^(w-1), 2^(w-1))
			u := r.BoundaryBig(w)
			v = new(big.Int).Set(u)
			if u.Bit(w-1) == 1 {
				v.Sub(v, new(big.Int).Lsh(big.NewInt(1), uint(w)))
			}
		} else {
			v = r.BoundaryBig(w)
		}
		t := uintT(w)
		if signed {
			t = intT(w)
		}
		m := c13Member{arg: circuit.IOArg{Name: name, Type: t}, truth: twos(v, w), text: spellInt(r, v)}
		m.goVal, m.hasGo = goInt(r, v, signed)
		m.desc = fmt.Sprintf("%s=%s", t, v.Text(10))
		return m
	default:
		es := vrt.Pick(r, []int{8, 8, 8, 16, 32, 4, 12, 64, 128})
		cnt := r.Intn(6)
		given := cnt
		if cnt > 0 && r.Intn(3) == 0 {
			given = r.Intn(cnt + 1) // short literal: the rest is zero padding
		}
		el := uintT(es)
		ti := types.Info{Type: types.TArray, IsConcrete: true, Bits: types.Size(es * cnt), MinBits: types.Size(es * cnt), ArraySize: types.Size(cnt), ElementType: &el}
		slice := es == 8 && given == cnt && cnt > 0 && r.Intn(4) == 0
		if slice {
			ti.Type = types.TSlice
		}
		truth := new(big.Int)
		var sb strings.Builder
		bytesOK := es >= 8
		var bs []byte
		for i := 0; i < given; i++ {
			e := r.BoundaryBig(es)
			if es >= 8 && r.Bool() {
				e = big.NewInt(int64(r.Intn(256)))
			}
			if !e.IsUint64() || e.Uint64() > 255 {
				bytesOK = false
			} else {
				bs = append(bs, byte(e.Uint64()))
			}
			truth.Or(truth, new(big.Int).Lsh(e, uint(i*es)))
			sb.WriteString(fmt.Sprintf("%0*s", es/4, e.Text(16)))
		}
		m := c13Member{arg: circuit.IOArg{Name: name, Type: ti}, truth: truth}
		if given == 0 {
			m.text = "0"
			m.goVal, m.hasGo = nil, !slice
		} else {
			m.text = "0x" + sb.String()
			if bytesOK {
				m.goVal, m.hasGo = bs, true
			}
		}
		m.desc = fmt.Sprintf("%s given=%d", ti, given)
		return m
	}
}

func init() {
	vrt.Register(&vrt.Prop{
		ID: "C13", Level: "exploration",
		Rule: "case = a generated argument shape (scalar or compound of 1-6 members: bool, intN/uintN with N in 1..130, [k]uintM arrays incl. k=0 and short literals, []uint8 slices) with boundary/random values in decimal/hex/binary/octal/negative spellings and typed Go values; " +
			"O1 Parse(text) and Set(go) bits vs the harness's own bit-level encoder, O2 non-interference (change one member, all other members' bit ranges unchanged), O3 size inference (InputSizes vs Sizes vs instantiated width), O4 mpc.Result decode/repeat/no-mutation for widths 1..130, arrays, strings, IO.Split, O5 a struct argument mixing sized ([k]uintM with short literals, intN) and unsized (uint, []uint8) members compiled with the sizes inferred from the written values: member widths, offsets and Parse bits. Distinct = hash of (shape, values).",
		NumCases: func(t string) int {
			if t == "thorough" {
				return 40000
			}
			return 4000
		},
		Run: runC13,
	})
}

// runC13: most cases run alone; some run as 2-3 concurrent sessions of the
// same case shape in one process (package-level state in the code under test).
func runC13(cs *vrt.Case) {
	if cs.Idx%8 >= 4 && cs.Idx%16 < 8 {
		cs.Twins(2+(cs.Idx/7)%2, func(sub *vrt.Case, _ *vrt.Rng) { runC13One(sub) })
		return
	}
	runC13One(cs)
}

func runC13One(cs *vrt.Case) {
	r := cs.Rng
	switch cs.Idx % 4 {
	case 0, 1:
		c13Encode(cs, r)
	case 2:
		if (cs.Idx/4)%2 == 1 {
			c13Instantiate(cs, r)
			return
		}
		c13Sizes(cs, r)
	default:
		c13Result(cs, r)
	}
}

func c13Encode(cs *vrt.Case, r *vrt.Rng) {
	n := 1
	compound := r.Intn(3) > 0
	if compound {
		n = r.Range(1, 6)
	}
	var ms []c13Member
	for i := 0; i < n; i++ {
		ms = append(ms, c13GenMember(r, i))
	}
	build := func(ms []c13Member) (circuit.IOArg, *big.Int, []string, []any, bool) {
		var arg circuit.IOArg
		truth := new(big.Int)
		var texts []string
		var gos []any
		allGo := true
		off := 0
		if compound {
			arg.Name = "s"
			for _, m := range ms {
				arg.Compound = append(arg.Compound, m.arg)
			}
		} else {
			arg = ms[0].arg
		}
		for _, m := range ms {
			truth.Or(truth, new(big.Int).Lsh(m.truth, uint(off)))
			off += int(m.arg.Type.Bits)
			texts = append(texts, m.text)
			gos = append(gos, m.goVal)
			allGo = allGo && m.hasGo
		}
		arg.Type.Bits = types.Size(off)
		if compound {
			arg.Type.Type = types.TStruct
			arg.Type.IsConcrete = true
		}
		return arg, truth, texts, gos, allGo
	}
	arg, truth, texts, gos, allGo := build(ms)
	total := int(arg.Type.Bits)
	var descs []string
	for _, m := range ms {
		descs = append(descs, m.desc)
	}
	desc := map[string]any{"kind": "encode", "compound": compound, "members": descs, "texts": texts, "go": fmt.Sprintf("%#v", gos)}
	cs.SetSample(desc)
	cs.Key("enc", fmt.Sprint(descs, texts))

	sameBits := func(a, b *big.Int, lo, hi int) int {
		for i := lo; i < hi; i++ {
			if a.Bit(i) != b.Bit(i) {
				return i
			}
		}
		return -1
	}
	memberAt := func(bit int) string {
		off := 0
		for _, m := range ms {
			if bit < off+int(m.arg.Type.Bits) {
				return m.arg.Type.Type.String()
			}
			off += int(m.arg.Type.Bits)
		}
		return "?"
	}

	// O1a: Parse
	var pv *big.Int
	var err error
	if pi := vrt.Guard(func() { pv, err = arg.Parse(texts) }); pi != nil {
		cs.Violate("C13|parse-panic|"+pi.Frame, "IOArg.Parse panicked: "+pi.Value, map[string]any{"case": desc, "stack": pi.Stack})
		return
	}
	cs.Evals++
	if err != nil {
		cs.Violate("C13|parse-error", "IOArg.Parse rejected a valid spelling: "+err.Error(), map[string]any{"case": desc})
	} else if b := sameBits(pv, truth, 0, total); b >= 0 {
		cs.Violate("C13|parse-bits|"+memberAt(b), fmt.Sprintf("Parse puts a wrong bit at wire %d (member type %s)", b, memberAt(b)),
			map[string]any{"case": desc, "got": twos(pv, total).Text(16), "want": truth.Text(16)})
	}
	// O1b: Set
	var sv *big.Int
	if allGo {
		var pre *big.Int
		if r.Bool() {
			pre = r.Big(200) // dirty result value to be reused
		}
		if pi := vrt.Guard(func() { sv, err = arg.Set(pre, gos) }); pi != nil {
			cs.Violate("C13|set-panic|"+pi.Frame, "IOArg.Set panicked: "+pi.Value, map[string]any{"case": desc, "stack": pi.Stack})
			return
		}
		cs.Evals++
		cs.Count("set_compared", 1)
		if err != nil {
			cs.Violate("C13|set-error", "IOArg.Set rejected valid values: "+err.Error(), map[string]any{"case": desc})
		} else if b := sameBits(sv, truth, 0, total); b >= 0 {
			// classify: which member's range, and does the bit come from a spill
			cls := "own-value"
			off := 0
			for _, m := range ms {
				w := int(m.arg.Type.Bits)
				if b >= off && b < off+w {
					own := new(big.Int).Rsh(sv, uint(off))
					own = twos(own, w)
					_ = own
					if m.arg.Type.Type == types.TArray || m.arg.Type.Type == types.TBool || m.arg.Type.Type == types.TSlice {
						cls = "spill-into-" + m.arg.Type.Type.String()
					} else if w > 64 {
						cls = "wider-than-64"
					}
				}
				off += w
			}
			cs.Violate("C13|set-bits|"+cls, fmt.Sprintf("Set puts a wrong bit at wire %d (%s)", b, cls),
				map[string]any{"case": desc, "got": twos(sv, total).Text(16), "want": truth.Text(16)})
		}
	}
	// O2: change one member; all other members' ranges must stay
	if compound && len(ms) > 1 {
		j := r.Intn(len(ms))
		ms2 := append([]c13Member(nil), ms...)
		for tries := 0; tries < 8; tries++ {
			ms2[j] = c13GenMember(r, j)
			if reflect.DeepEqual(ms2[j].arg.Type.String(), ms[j].arg.Type.String()) && ms2[j].arg.Type.Bits == ms[j].arg.Type.Bits {
				break
			}
			ms2[j] = ms[j]
		}
		arg2, _, texts2, gos2, allGo2 := build(ms2)
		off := 0
		var p2, s2 *big.Int
		var e1, e2 error
		if pi := vrt.Guard(func() {
			p2, e1 = arg2.Parse(texts2)
			if allGo && allGo2 {
				s2, e2 = arg2.Set(nil, gos2)
			}
		}); pi != nil {
			cs.Violate("C13|panic|"+pi.Frame, "Parse/Set panicked: "+pi.Value, map[string]any{"case": desc, "stack": pi.Stack})
			return
		}
		for i, m := range ms {
			w := int(m.arg.Type.Bits)
			if i != j {
				cs.Evals++
				if e1 == nil && pv != nil && sameBits(pv, p2, off, off+w) >= 0 {
					cs.Violate("C13|interference|parse", fmt.Sprintf("changing member %d changed member %d's bits (Parse)", j, i), map[string]any{"case": desc, "texts2": texts2})
				}
				if s2 != nil && e2 == nil && sv != nil && sameBits(sv, s2, off, off+w) >= 0 {
					cs.Violate("C13|interference|set", fmt.Sprintf("changing member %d changed member %d's bits (Set)", j, i), map[string]any{"case": desc, "go2": fmt.Sprintf("%#v", gos2)})
				}
			}
			off += w
		}
		cs.Count("interference_probes", 1)
	}
}

func c13Sizes(cs *vrt.Case, r *vrt.Rng) {
	// O3: non-negative integers
	var texts []string
	var gos []any
	var vals []*big.Int
	n := r.Range(1, 6)
	for i := 0; i < n; i++ {
		var v *big.Int
		if cs.Idx/4 < 70 && i == 0 {
			v = big.NewInt(int64(cs.Idx / 4)) // small values systematically
		} else {
			v = r.BoundaryBig(vrt.Pick(r, []int{1, 2, 3, 8, 9, 16, 31, 32, 33, 63, 64}))
		}
		g, _ := goInt(r, v, false)
		vals = append(vals, v)
		texts = append(texts, v.Text(10))
		gos = append(gos, g)
	}
	desc := map[string]any{"kind": "sizes", "texts": texts, "go": fmt.Sprintf("%#v", gos)}
	cs.SetSample(desc)
	var ts, gs []int
	var e1, e2 error
	if pi := vrt.Guard(func() { ts, e1 = circuit.InputSizes(texts); gs, e2 = circuit.Sizes(gos) }); pi != nil {
		cs.Violate("C13|sizes-panic|"+pi.Frame, "size inference panicked: "+pi.Value, map[string]any{"case": desc, "stack": pi.Stack})
		return
	}
	if e1 != nil || e2 != nil {
		cs.Violate("C13|sizes-error", fmt.Sprintf("size inference failed: %v / %v", e1, e2), map[string]any{"case": desc})
		return
	}
	for i, v := range vals {
		cs.Evals++
		cs.Key("size", v.Text(10))
		if ts[i] != gs[i] {
			cls := "other"
			if v.Cmp(big.NewInt(2)) == 0 || v.Cmp(big.NewInt(3)) == 0 {
				cls = "values-2-3"
			}
			cs.Violate("C13|sizes-disagree|"+cls, fmt.Sprintf("InputSizes(%q)=%d but Sizes(%T(%v))=%d", texts[i], ts[i], gos[i], gos[i], gs[i]), map[string]any{"case": desc})
			continue
		}
		// instantiate an unsized uint with the inferred size: the value must fit
		for _, sz := range []int{ts[i], gs[i]} {
			ti := types.Info{Type: types.TUint}
			if err := ti.InstantiateWithSizes([]int{sz}); err != nil {
				cs.Violate("C13|instantiate-error", err.Error(), map[string]any{"case": desc})
				continue
			}
			if int(ti.Bits) < v.BitLen() {
				cs.Violate("C13|inferred-size-truncates", fmt.Sprintf("value %s needs %d bits, inferred width is %d", v.Text(10), v.BitLen(), ti.Bits), map[string]any{"case": desc})
			}
		}
	}
	// hex spellings infer the written width
	digits := r.Range(1, 40)
	hx := "0x" + strings.Repeat("0", r.Intn(3)) + r.Big(digits*4).Text(16)
	if s, err := circuit.InputSizes([]string{hx}); err != nil || s[0] != (len(hx)-2)*4 {
		cs.Violate("C13|hex-size", fmt.Sprintf("InputSizes(%q) = %v, %v", hx, s, err), nil)
	}
}

// c13Instantiate is O5: a main argument that is a struct mixing sized members
// ([k]uintM with short literals, intN/uintN, bool) with unsized ones (uint,
// []uint8) is compiled with the sizes inferred from the written values; the
// instantiated member widths, the member offsets and the bits Parse puts on the
// wires must be what the declaration and the values say.
func c13Instantiate(cs *vrt.Case, r *vrt.Rng) {
	n := r.Range(2, 5)
	var ms []c13Member
	var decl []string
	unsized := make([]bool, n)
	anyUnsized := false
	for i := 0; i < n; i++ {
		m := c13GenMember(r, i)
		for m.arg.Type.Type == types.TArray && m.arg.Type.ArraySize == 0 {
			m = c13GenMember(r, i)
		}
		t := m.arg.Type
		src := t.String()
		switch t.Type {
		case types.TUint:
			if r.Intn(2) == 0 && !strings.HasPrefix(m.text, "-") {
				unsized[i], src = true, "uint"
			}
		case types.TSlice:
			unsized[i], src = true, "[]"+t.ElementType.String()
		case types.TArray:
			src = fmt.Sprintf("[%d]%s", t.ArraySize, t.ElementType.String())
		}
		anyUnsized = anyUnsized || unsized[i]
		ms = append(ms, m)
		decl = append(decl, fmt.Sprintf("\t%s %s", m.arg.Name, src))
	}
	if !anyUnsized {
		// the path under observation is taken only for non-concrete structs
		for i, m := range ms {
			if m.arg.Type.Type == types.TUint && !strings.HasPrefix(m.text, "-") {
				unsized[i] = true
				decl[i] = fmt.Sprintf("\t%s uint", m.arg.Name)
				anyUnsized = true
				break
			}
		}
		if !anyUnsized {
			cs.Count("instantiate_shapes_without_unsized_member", 1)
			return
		}
	}
	var texts []string
	for _, m := range ms {
		texts = append(texts, m.text)
	}
	src := "package main\n\ntype S struct {\n" + strings.Join(decl, "\n") + "\n}\n\nfunc main(a S, b uint8) uint8 {\n\treturn b\n}\n"
	desc := map[string]any{"kind": "instantiate", "program": src, "texts": texts}
	cs.SetSample(desc)
	sizes, err := circuit.InputSizes(texts)
	if err != nil {
		cs.Violate("C13|sizes-error", "InputSizes failed: "+err.Error(), map[string]any{"case": desc})
		return
	}
	c, err, pan := compileMPCL(src, nil, [][]int{sizes, {8}})
	if pan != nil {
		if pan.InMPC {
			cs.Violate("C13|instantiate-panic|"+pan.Frame, "compiling with inferred sizes panicked: "+pan.Value, map[string]any{"case": desc, "stack": pan.Stack})
		} else {
			cs.Inconc("harness panic: " + pan.Value)
		}
		return
	}
	if err != nil {
		cs.Count("instantiate_programs_rejected", 1)
		cs.Seen("instantiate_rejections", trimNum(lastLine(err.Error())))
		return
	}
	st := c.Inputs[0].Type
	if st.Type != types.TStruct || len(st.Struct) != n {
		cs.Violate("C13|instantiate-shape", fmt.Sprintf("argument type after instantiation: %s", st), map[string]any{"case": desc})
		return
	}
	truth := new(big.Int)
	off := 0
	for i, m := range ms {
		f := st.Struct[i].Type
		want := int(m.arg.Type.Bits)
		mt := m.truth
		switch {
		case unsized[i] && m.arg.Type.Type == types.TUint:
			want = sizes[i]
		case unsized[i]: // slice of 8-bit elements
			want = (sizes[i] + 7) / 8 * 8
			// a hex literal fills the slice from its first element
		}
		cs.Evals++
		if int(f.Bits) != want {
			cs.Violate("C13|instantiate-width|"+m.arg.Type.Type.String(), fmt.Sprintf("member %d (%s, written %q, inferred size %d) is %d bits wide after instantiation, expected %d", i, strings.TrimSpace(decl[i]), m.text, sizes[i], f.Bits, want), map[string]any{"case": desc})
			return
		}
		if int(f.Offset) != off {
			cs.Violate("C13|instantiate-offset", fmt.Sprintf("member %d starts at bit %d, the members before it occupy %d bits", i, f.Offset, off), map[string]any{"case": desc})
			return
		}
		if mt.BitLen() > want {
			cs.Inconc(fmt.Sprintf("harness: truth of member %d does not fit its width", i))
			return
		}
		truth.Or(truth, new(big.Int).Lsh(mt, uint(off)))
		off += want
	}
	if int(st.Bits) != off {
		cs.Violate("C13|instantiate-total", fmt.Sprintf("struct is %d bits, members add up to %d", st.Bits, off), map[string]any{"case": desc})
		return
	}
	var got *big.Int
	if pi := vrt.Guard(func() { got, err = c.Inputs[0].Parse(texts) }); pi != nil {
		cs.Violate("C13|parse-panic|"+pi.Frame, "Parse panicked: "+pi.Value, map[string]any{"case": desc, "stack": pi.Stack})
		return
	}
	if err != nil {
		cs.Violate("C13|instantiate-parse-error", "Parse of the values the sizes were inferred from failed: "+err.Error(), map[string]any{"case": desc})
		return
	}
	if got.Cmp(truth) != 0 {
		cs.Violate("C13|instantiate-parse-bits", fmt.Sprintf("Parse after instantiation puts %s on the wires, the declaration and values say %s", got.Text(16), truth.Text(16)), map[string]any{"case": desc})
		return
	}
	cs.Key("instantiate", src, strings.Join(texts, ","))
	cs.Count("instantiated_struct_arguments", 1)
}

func c13Result(cs *vrt.Case, r *vrt.Rng) {
	w := c13Widths[(cs.Idx/4)%len(c13Widths)]
	kind := r.Intn(5)
	var arg circuit.IOArg
	var enc *big.Int
	var want any
	bigOrNative := func(v *big.Int, signed bool, bits int) any {
		switch {
		case bits <= 8 && signed:
			return int8(v.Int64())
		case bits <= 16 && signed:
			return int16(v.Int64())
		case bits <= 32 && signed:
			return int32(v.Int64())
		case bits <= 64 && signed:
			return v.Int64()
		case bits <= 8:
			return uint8(v.Uint64())
		case bits <= 16:
			return uint16(v.Uint64())
		case bits <= 32:
			return uint32(v.Uint64())
		case bits <= 64:
			return v.Uint64()
		}
		return v
	}
	sval := func(bits int) (*big.Int, *big.Int) {
		u := r.BoundaryBig(bits)
		v := new(big.Int).Set(u)
		if u.Bit(bits-1) == 1 {
			v.Sub(v, new(big.Int).Lsh(big.NewInt(1), uint(bits)))
		}
		return u, v
	}
	switch kind {
	case 0:
		arg = circuit.IOArg{Type: uintT(w)}
		enc = r.BoundaryBig(w)
		want = bigOrNative(new(big.Int).Set(enc), false, w)
	case 1:
		arg = circuit.IOArg{Type: intT(w)}
		u, v := sval(w)
		enc = u
		want = bigOrNative(v, true, w)
	case 2:
		arg = circuit.IOArg{Type: types.Bool}
		b := r.Bool()
		enc, want = big.NewInt(int64(b2i(b))), b
	case 3:
		// array of ints/uints
		es := vrt.Pick(r, []int{1, 7, 8, 9, 16, 32, 33, 64, 65, 100, 128, 130})
		signed := r.Bool()
		cnt := r.Range(1, 6)
		el := uintT(es)
		if signed {
			el = intT(es)
		}
		arg = circuit.IOArg{Type: types.Info{Type: types.TArray, IsConcrete: true, Bits: types.Size(es * cnt), ArraySize: types.Size(cnt), ElementType: &el}}
		enc = new(big.Int)
		var vals []any
		for i := 0; i < cnt; i++ {
			u, v := sval(es)
			if !signed {
				v = u
			}
			enc.Or(enc, new(big.Int).Lsh(u, uint(i*es)))
			vals = append(vals, bigOrNative(v, signed, es))
		}
		want = vals
	default:
		n := r.Range(1, 12)
		s := make([]byte, n)
		for i := range s {
			s[i] = byte(r.Range(0x20, 0x7e))
		}
		// every byte value is a character of an MPCL string: NUL (also as the
		// last and the first character, and in all-zero strings), control
		// characters and bytes above 0x7f. mpc.Result renders a character as
		// the Latin-1 rune when it is printable and as \uXXXX otherwise -
		// injective for a given length, so distinct results stay distinct.
		switch r.Intn(6) {
		case 0:
			for k := r.Range(1, n); k > 0; k-- {
				s[n-k] = 0 // trailing NULs (the whole string when k = n)
			}
		case 1:
			s[0] = 0
			s[r.Intn(n)] = 0
		case 2:
			for i := range s {
				if r.Intn(2) == 0 {
					s[i] = byte(r.Intn(256))
				}
			}
		}
		arg = circuit.IOArg{Type: types.Info{Type: types.TString, IsConcrete: true, Bits: types.Size(8 * n)}}
		enc = new(big.Int)
		var sb strings.Builder
		for i, c := range s {
			enc.Or(enc, new(big.Int).Lsh(big.NewInt(int64(c)), uint(8*i)))
			if unicode.IsPrint(rune(c)) {
				sb.WriteRune(rune(c))
			} else {
				fmt.Fprintf(&sb, "\\u%04x", c)
			}
		}
		want = sb.String()
	}
	desc := map[string]any{"kind": "result", "type": arg.Type.String(), "enc": enc.Text(16)}
	cs.SetSample(desc)
	cs.Key("res", arg.Type.String(), enc.Text(16))
	before := new(big.Int).Set(enc)
	var g1, g2 any
	if pi := vrt.Guard(func() { g1 = mpc.Result(enc, arg); g2 = mpc.Result(enc, arg) }); pi != nil {
		cs.Violate("C13|result-panic|"+pi.Frame, "mpc.Result panicked: "+pi.Value, map[string]any{"case": desc, "stack": pi.Stack})
		return
	}
	cs.Evals += 2
	norm := func(x any) string {
		rv := reflect.ValueOf(x)
		if rv.Kind() == reflect.Slice {
			var parts []string
			for i := 0; i < rv.Len(); i++ {
				parts = append(parts, fmt.Sprintf("%T:%v", rv.Index(i).Interface(), rv.Index(i).Interface()))
			}
			return "[" + strings.Join(parts, " ") + "]"
		}
		return fmt.Sprintf("%T:%v", x, x)
	}
	wantS := norm(want)
	neg := ""
	if kind == 1 && enc.Bit(w-1) == 1 || kind == 1 && before.Bit(w-1) == 1 {
		neg = "|negative-int"
	}
	if enc.Cmp(before) != 0 {
		cs.Violate("C13|result-mutates-argument"+neg, fmt.Sprintf("mpc.Result changed the *big.Int it was given: %s -> %s (%s)", before.Text(16), enc.Text(16), arg.Type), map[string]any{"case": desc})
	}
	if norm(g1) != wantS {
		cs.Violate("C13|result-wrong", fmt.Sprintf("mpc.Result decoded %s as %s, expected %s", arg.Type, norm(g1), wantS), map[string]any{"case": desc})
	} else if norm(g2) != wantS {
		cs.Violate("C13|result-not-repeatable"+neg, fmt.Sprintf("second mpc.Result call on the same value gave %s, first gave %s", norm(g2), norm(g1)), map[string]any{"case": desc})
	}
	// IO.Split inverts packing
	var io circuit.IO
	flat := new(big.Int)
	var parts []*big.Int
	off := 0
	for i := r.Range(1, 5); i > 0; i-- {
		bw := vrt.Pick(r, c13Widths)
		io = append(io, circuit.IOArg{Type: uintT(bw)})
		v := r.BoundaryBig(bw)
		parts = append(parts, v)
		flat.Or(flat, new(big.Int).Lsh(v, uint(off)))
		off += bw
	}
	sp := io.Split(flat)
	cs.Evals++
	for i := range parts {
		if i >= len(sp) || sp[i].Cmp(parts[i]) != 0 {
			cs.Violate("C13|split", fmt.Sprintf("IO.Split output %d wrong", i), map[string]any{"io": io.String(), "flat": flat.Text(16)})
			break
		}
	}
}
