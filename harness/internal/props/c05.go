package props

import (
	"bytes"
	"encoding/hex"
	"fmt"
	"math/big"
	"os"
	"path/filepath"
	"strings"
	"time"

	"github.com/markkurossi/mpc/circuit"
	mpccircuit "github.com/markkurossi/mpc/circuit"
	"github.com/markkurossi/mpc/compiler"
	"github.com/markkurossi/mpc/compiler/utils"

	"verifharness/internal/mpclgen"
	"verifharness/internal/refc"
	"verifharness/internal/vrt"
)

// valStrings renders a value the way the two-party tools take inputs: one
// string per scalar / array member, struct fields flattened.
func valStrings(v mpclgen.Val) []string {
	t := v.T
	switch t.Kind {
	case mpclgen.KBool:
		if v.I.Sign() != 0 {
			return []string{"true"}
		}
		return []string{"false"}
	case mpclgen.KInt, mpclgen.KUint:
		return []string{v.I.String()}
	case mpclgen.KArr:
		var sb strings.Builder
		sb.WriteString("0x")
		for _, e := range v.E {
			sb.WriteString(fmt.Sprintf("%0*s", e.T.Bits/4, e.I.Text(16)))
		}
		return []string{sb.String()}
	default:
		var out []string
		for _, e := range v.E {
			out = append(out, valStrings(e)...)
		}
		return out
	}
}

var c05GenCfg = mpclgen.Config{Args: 2, Arrays: true, Structs: true, Funcs: true, Loops: true, Division: true, Mult: true, NoConst: true, TextArrays: true, AliasBias: true,
	Widths: []int{1, 2, 3, 7, 8, 9, 15, 16, 17, 31, 32, 33, 63, 64, 65, 100}}

// unsized / big fixtures: source, garbler input, evaluator input
var c05Fixtures = []struct {
	name, src string
	in        func(r *vrt.Rng) ([]string, []string)
}{
	{"unsized-uint", `package main
func main(a, b uint) uint {
	return a + b
}
`, func(r *vrt.Rng) ([]string, []string) {
		// equal written widths (a + b needs equal types); leading hex digit non-zero
		n := r.Range(1, 20)
		hex := func() string {
			v := r.Big(4 * n)
			v.SetBit(v, 4*n-1, 1)
			return "0x" + v.Text(16)
		}
		return []string{hex()}, []string{hex()}
	}},
	{"unsized-bytes", `package main
func main(a, b []byte) ([]byte, uint8) {
	var s uint8
	for i := 0; i < len(a); i++ {
		s = s ^ a[i]
	}
	return b, s
}
`, func(r *vrt.Rng) ([]string, []string) {
		return []string{"0x" + fmt.Sprintf("%x", r.Bytes(r.Range(1, 12)))}, []string{"0x" + fmt.Sprintf("%x", r.Bytes(r.Range(1, 12)))}
	}},
	{"live-wires-over-65535", `package main
func main(a [9000]uint8, b uint8) (uint8, uint8) {
	var s uint8
	for i := 0; i < 40; i++ {
		s = s + (a[i*200] ^ b)
	}
	return s, a[8999] + a[0]
}
`, func(r *vrt.Rng) ([]string, []string) {
		return []string{"0x" + fmt.Sprintf("%x", r.Bytes(9000))}, []string{fmt.Sprint(r.Intn(256))}
	}},
	// the same instruction shape on operands of different sizes within one
	// session: data-dependent index reads on slices of different lengths,
	// slice expressions, and arrays of different sizes
	{"same-shape-different-sizes", `package main
func main(a, b []byte) (byte, byte, byte, byte, uint16, uint16) {
	i := a[0] & 1
	x := a[i]
	y := b[i]
	z := b[i+3]
	s := b[1:3]
	t := b[1:5]
	var p [3]uint16
	var q [5]uint16
	for k := 0; k < 3; k++ {
		p[k] = uint16(a[k % len(a)]) + uint16(k)
	}
	for k := 0; k < 5; k++ {
		q[k] = uint16(b[k]) * 3
	}
	j := b[0] & 1
	return x, y, z, s[i] ^ t[i+2], p[j], q[j+3]
}
`, func(r *vrt.Rng) ([]string, []string) {
		return []string{"0x" + fmt.Sprintf("%x", r.Bytes(r.Range(2, 4)))}, []string{"0x" + fmt.Sprintf("%x", r.Bytes(r.Range(5, 11)))}
	}},
	// a variable merged after an if is first used inside a later branch that
	// returns, and computed on after that if (the phi of the merge must be
	// defined before both)
	{"merged-variable-first-used-in-a-returning-branch", `package main
func main(a int8, b int8) (int8, int8) {
	x := a
	y := b
	if b > 5 {
		x--
	} else {
		y = y + a
	}
	if a > 2 {
	} else {
		if x > b {
			y++
		}
		return b, y * 3
	}
	return x + 1, y - x
}
`, func(r *vrt.Rng) ([]string, []string) {
		return []string{fmt.Sprint(r.Intn(256) - 128)}, []string{fmt.Sprint(r.Intn(256) - 128)}
	}},
	// the evaluator's input wires (through one OT batch) straddle wire id 65536
	{"evaluator-input-across-65536", `package main
func main(a uint8, b [8200]uint8) (uint8, uint8, uint8) {
	var s uint8
	for i := 0; i < 24; i++ {
		s = s + (b[8180+i%20] ^ a)
	}
	return s, b[8190] + b[8191] + b[8192], b[8199] ^ b[0] ^ a
}
`, func(r *vrt.Rng) ([]string, []string) {
		return []string{fmt.Sprint(r.Intn(256))}, []string{"0x" + fmt.Sprintf("%x", r.Bytes(8200))}
	}},
	// signed comparisons, division and remainder of a 64-bit variable with
	// literals that are stored in 32 wires with the top bit set (the narrower
	// operand is widened at instruction level, by zero for such a literal)
	{"signed-operators-with-32-bit-literals-whose-top-bit-is-set", `package main
func main(a int64, b int64) (bool, bool, bool, bool, int64, int64, bool) {
	return a < 2147483648, b >= 4294967295, a <= 4294967280, b > 3000000000, a / 3000000000, b % 2147483649, a < b
}
`, func(r *vrt.Rng) ([]string, []string) {
		v := func() string {
			switch r.Intn(4) {
			case 0:
				return fmt.Sprint(int64(r.Intn(1<<20)) - 1<<19)
			case 1:
				return fmt.Sprint(int64(2147483648) + int64(r.Intn(1<<31)))
			default:
				return fmt.Sprint(int64(r.U64()))
			}
		}
		return []string{v()}, []string{v()}
	}},
}

// c05StoreProgram draws a program of the "store" family: a byte/word array
// argument and a local struct receive 1-4 stores whose value is a literal (kept
// by the compiler in 32 or 64 wires whatever the slot width), the other party's
// scalar, another element or a small expression - narrower, equal to and wider
// than the slot - and array and fields are returned whole, so every bit next to
// each stored slot is observed.
func c05StoreProgram(r *vrt.Rng) (src string, gIn, eIn []string) {
	W := vrt.Pick(r, []int{8, 8, 16, 16, 32, 64})
	K := r.Range(2, 8)
	fw := []int{vrt.Pick(r, []int{3, 7, 8, 16, 24}), vrt.Pick(r, []int{8, 16, 31, 32, 33}), vrt.Pick(r, []int{1, 8, 16, 64})}
	var b strings.Builder
	fmt.Fprintf(&b, "package main\n\ntype S struct {\n\tf0 uint%d\n\tf1 uint%d\n\tf2 uint%d\n}\n\n", fw[0], fw[1], fw[2])
	// two variables that take one of two literals depending on the inputs (a
	// select whose both operands are constants re-wired to the variable's width)
	sw := []int{vrt.Pick(r, []int{8, 16, 24, 64}), vrt.Pick(r, []int{7, 33, 64, 100})}
	fmt.Fprintf(&b, "func main(a [%d]uint%d, b uint%d) ([%d]uint%d, uint%d, uint%d, uint%d, uint%d, int%d) {\n", K, W, W, K, W, fw[0], fw[1], fw[2], sw[0], sw[1])
	fmt.Fprintf(&b, "\tvar s S\n\ts.f0 = uint%d(a[0])\n\ts.f1 = uint%d(b)\n\ts.f2 = uint%d(a[%d])\n", fw[0], fw[1], fw[2], K-1)
	lit := func(w int) string {
		bits := min(w, 62)
		if r.Intn(4) == 0 {
			bits = r.Range(1, bits)
		}
		v := r.Big(bits)
		if r.Bool() {
			v.SetBit(v, bits-1, 1)
		}
		if r.Bool() {
			return "0x" + v.Text(16)
		}
		return v.String()
	}
	for n := r.Range(1, 4); n > 0; n-- {
		var tgt string
		var w int
		if r.Intn(3) != 0 {
			i := r.Intn(K)
			if K > 1 && r.Bool() {
				i = r.Intn(K - 1) // not the last slot
			}
			tgt, w = fmt.Sprintf("a[%d]", i), W
		} else {
			f := r.Intn(3)
			tgt, w = fmt.Sprintf("s.f%d", f), fw[f]
		}
		var val string
		switch r.Intn(5) {
		case 0, 1:
			val = lit(w)
		case 2:
			val = fmt.Sprintf("uint%d(b)", w)
		case 3:
			val = fmt.Sprintf("uint%d(a[%d]) + %s", w, r.Intn(K), lit(min(w, 8)))
		default:
			val = fmt.Sprintf("uint%d(a[%d] ^ b)", w, r.Intn(K))
		}
		fmt.Fprintf(&b, "\t%s = %s\n", tgt, val)
	}
	cmpop := vrt.Pick(r, []string{">", "<=", "!=", "=="})
	fmt.Fprintf(&b, "\tvar t0 uint%d\n\tif a[0] %s b {\n\t\tt0 = %s\n\t} else {\n\t\tt0 = %s\n\t}\n", sw[0], cmpop, lit(sw[0]), lit(sw[0]))
	fmt.Fprintf(&b, "\tvar t1 int%d\n\tif a[%d] %s b {\n\t\tt1 = %s\n\t} else {\n\t\tt1 = %s\n\t}\n", sw[1], K-1, vrt.Pick(r, []string{">", "<="}), lit(min(sw[1]-1, 30)), lit(min(sw[1]-1, 30)))
	b.WriteString("\treturn a, s.f0, s.f1, s.f2, t0, t1\n}\n")
	av := r.Bytes(K * W / 8)
	for i := range av {
		if av[i] == 0 {
			av[i] = 0xa5 // neighbours of a stored slot hold non-zero data
		}
	}
	return b.String(), []string{"0x" + fmt.Sprintf("%x", av)}, []string{"0x" + r.Big(W).Text(16)}
}

// c05AliasProgram draws a program of the "alias" family: values that the
// streaming compiler represents as re-wirings of other values (constant shifts,
// same-width casts, array element stores and slices) are created in chains and
// fans - one value aliased two to four times - and consumed in a PRNG order, so
// that aliases die at different times while their source or a sibling alias is
// still live. Wire recycling must keep every live alias intact.
func c05AliasProgram(r *vrt.Rng) (src string, gIn, eIn []string) {
	W := vrt.Pick(r, []int{8, 16, 31, 32, 33, 64})
	T := fmt.Sprintf("%s%d", vrt.Pick(r, []string{"int", "uint"}), W)
	var b strings.Builder
	fmt.Fprintf(&b, "package main\n\nfunc main(a, b %s) (%s, %s, %s) {\n", T, T, T, T)
	vals := []string{"a", "b"}
	n := r.Range(4, 9)
	arr := ""
	for i := 0; i < n; i++ {
		name := fmt.Sprintf("v%d", i)
		e := vals[r.Intn(len(vals))]
		if i > 0 && r.Intn(3) == 0 {
			e = vals[len(vals)-1-r.Intn(min(2, len(vals)))] // fan: alias a recent value again
		}
		switch k := r.Intn(10); {
		case k < 3:
			fmt.Fprintf(&b, "\t%s := %s >> %d\n", name, e, r.Range(1, W-1))
		case k < 5:
			fmt.Fprintf(&b, "\t%s := %s << %d\n", name, e, r.Range(1, W-1))
		case k == 5:
			fmt.Fprintf(&b, "\t%s := %s(%s)\n", name, T, e)
		case k == 6 && arr == "":
			arr = fmt.Sprintf("m%d", i)
			fmt.Fprintf(&b, "\tvar %s [4]%s\n\t%s[%d] = %s\n\t%s[%d] = %s\n\t%s := %s[%d]\n", arr, T, arr, r.Intn(4), e, arr, r.Intn(4), vals[r.Intn(len(vals))], name, arr, r.Intn(4))
		case k == 6:
			fmt.Fprintf(&b, "\t%s[%d] = %s\n\t%s := %s[%d] ^ %s[%d]\n", arr, r.Intn(4), e, name, arr, r.Intn(4), arr, r.Intn(4))
		case k == 7:
			fmt.Fprintf(&b, "\t%s := %s + %s\n", name, e, vals[r.Intn(len(vals))])
		case k == 8:
			fmt.Fprintf(&b, "\t%s := %s ^ (%s - %s)\n", name, e, vals[r.Intn(len(vals))], vals[r.Intn(len(vals))])
		default:
			fmt.Fprintf(&b, "\t%s := (%s >> %d) + (%s << %d)\n", name, e, r.Range(1, W-1), e, r.Range(1, W-1))
		}
		vals = append(vals, name)
	}
	// consume in a PRNG order: values die at different times
	order := r.Perm(len(vals))
	b.WriteString("\tr := a\n")
	for j, i := range order {
		op := vrt.Pick(r, []string{"+", "^", "-"})
		if j%3 == 2 {
			fmt.Fprintf(&b, "\tr = (r %s %s) * b\n", op, vals[i])
		} else {
			fmt.Fprintf(&b, "\tr = r %s %s\n", op, vals[i])
		}
	}
	fmt.Fprintf(&b, "\treturn r, %s, %s\n}\n", vals[2+r.Intn(len(vals)-2)], vals[2+r.Intn(len(vals)-2)])
	in := func() string {
		v := r.BoundaryBig(W)
		if T[0] == 'i' && v.Bit(W-1) == 1 {
			v.Sub(v, new(big.Int).Lsh(big.NewInt(1), uint(W)))
		}
		return v.String()
	}
	return b.String(), []string{in()}, []string{in()}
}

// c05ManyValues draws a program of the "many values" family: an unrolled loop
// of 150-500 iterations creates thousands of distinct SSA values, and L lag
// variables written in rotation keep some of them alive for L iterations while
// their neighbours die at once - the allocator's tables (hash buckets, free
// lists) hold many entries with interleaved lifetimes, which small programs
// never produce.
func c05ManyValues(r *vrt.Rng) (src string, gIn, eIn []string) {
	W := vrt.Pick(r, []int{8, 16, 32})
	N := r.Range(150, 500)
	L := r.Range(3, 8)
	T := fmt.Sprintf("uint%d", W)
	var b strings.Builder
	fmt.Fprintf(&b, "package main\n\nfunc main(a [%d]%s, b %s) (%s, %s, %s) {\n\tvar acc, mix, x, y, z %s\n", N, T, T, T, T, T, T)
	for k := 0; k < L; k++ {
		fmt.Fprintf(&b, "\tvar k%d %s\n", k, T)
	}
	ops := []string{"+", "^", "-", "|", "&"}
	fmt.Fprintf(&b, "\tfor i := 0; i < %d; i++ {\n", N)
	fmt.Fprintf(&b, "\t\tx = a[i] %s b\n", vrt.Pick(r, ops[:3]))
	fmt.Fprintf(&b, "\t\ty = x %s acc\n", vrt.Pick(r, ops[:3]))
	fmt.Fprintf(&b, "\t\tz = (y >> %d) %s (x << %d)\n", r.Range(1, W-1), vrt.Pick(r, ops[:3]), r.Range(1, W-1))
	for k := 0; k < L; k++ {
		// the lag variable written L iterations ago is read just before it is overwritten
		fmt.Fprintf(&b, "\t\tif i %% %d == %d {\n\t\t\tmix = mix %s (k%d %s z)\n\t\t\tk%d = z %s y\n\t\t}\n", L, k, vrt.Pick(r, ops[:3]), k, vrt.Pick(r, ops), k, vrt.Pick(r, ops[:3]))
	}
	fmt.Fprintf(&b, "\t\tacc = acc %s z\n\t}\n", vrt.Pick(r, ops[:2]))
	fmt.Fprintf(&b, "\treturn acc, mix, k%d %s k%d\n}\n", r.Intn(L), vrt.Pick(r, ops[:3]), r.Intn(L))
	return b.String(), []string{"0x" + fmt.Sprintf("%x", r.Bytes(N*W/8))}, []string{"0x" + r.Big(W).Text(16)}
}

// c05NativeProgram draws a program of the "native circuit" family: a circuit
// file generated by the harness (all five gate types, outputs that also feed
// later gates, the same wire on both inputs of a gate; Bristol or the native
// binary format) is written next to a main.mpcl that calls it twice through
// native("n.circ", ...) - the second time on other inputs, so the cached
// circuit is streamed again - and combines the results. Returns the directory.
func c05NativeProgram(r *vrt.Rng) (dir, file, src string, gIn, eIn []string, err error) {
	wa, wb := vrt.Pick(r, []int{1, 3, 8, 8, 16}), vrt.Pick(r, []int{1, 4, 8, 8, 16})
	wr := vrt.Pick(r, []int{1, 2, 8, 8, 13})
	sh := refc.Shape{Args: []int{wa, wb}, Outs: []int{wr}, Gates: r.Range(wr+2, 90), Kind: r.Intn(5), SameP: 8, Named: true}
	if r.Bool() {
		sh.Kind = 1 // chain: gates prefer the most recent wires, so output wires feed the gates after them
	}
	if r.Intn(3) == 0 {
		sh.Outs = []int{wr, vrt.Pick(r, []int{1, 8})}
	}
	c := refc.Gen(r, sh)
	if dir, err = os.MkdirTemp("", "c05n-"); err != nil {
		return
	}
	name := "n.circ"
	var buf bytes.Buffer
	if r.Bool() {
		name = "n.mpclc"
		err = c.Marshal(&buf)
	} else {
		err = c.MarshalBristol(&buf)
	}
	if err != nil {
		return
	}
	if err = os.WriteFile(filepath.Join(dir, name), buf.Bytes(), 0o600); err != nil {
		return
	}
	var b strings.Builder
	var rets []string
	for _, o := range sh.Outs {
		rets = append(rets, fmt.Sprintf("uint%d", o))
	}
	k1, k2 := r.Intn(1<<uint(min(wa, 6))), r.Intn(1<<uint(min(wb, 6)))
	gIn, eIn = []string{"0x" + r.Big(wa).Text(16)}, []string{"0x" + r.Big(wb).Text(16)}
	// a third call with a literal argument narrower than the circuit's
	// input (the front end pads a constant argument to the input's width)
	third := "a, b"
	if wa > 1 && wb > 1 {
		cw := r.Range(1, wb-1)
		third = fmt.Sprintf("a, uint%d(%d)", cw, r.Intn(1<<uint(min(cw, 5))))
		if r.Bool() {
			cw = r.Range(1, wa-1)
			third = fmt.Sprintf("uint%d(%d), b", cw, r.Intn(1<<uint(min(cw, 5))))
		}
	}
	fmt.Fprintf(&b, "package main\n\nfunc main(a uint%d, b uint%d) (%s, uint%d) {\n", wa, wb, strings.Join(rets, ", "), sh.Outs[0])
	if len(sh.Outs) == 1 {
		fmt.Fprintf(&b, "\tx := native(\"%s\", a, b)\n\ty := native(\"%s\", a ^ %d, b + %d)\n\tz := native(\"%s\", %s)\n\treturn x, x ^ y ^ z\n}\n", name, name, k1, k2, name, third)
	} else {
		fmt.Fprintf(&b, "\tx, p := native(\"%s\", a, b)\n\ty, q := native(\"%s\", a ^ %d, b + %d)\n\tz, u := native(\"%s\", %s)\n\treturn x, p ^ q ^ u, x ^ y ^ z\n}\n", name, name, k1, k2, name, third)
	}
	src = b.String()
	file = filepath.Join(dir, "main.mpcl")
	err = os.WriteFile(file, []byte(src), 0o600)
	return dir, file, src, gIn, eIn, err
}

func init() {
	vrt.Register(&vrt.Prop{
		ID: "C05", Level: "exploration",
		Rule: "case = a two-party program (generated with aliasing bias: constant shifts, casts, array element and struct field updates, arrays/structs as arguments; or a PRNG-parameterised alias-family program (chains and fans of constant shifts, same-width casts, element stores and reads consumed in a PRNG order so that aliases die at different times); or a native-circuit-family program (a harness-generated circuit file with all gate types, called twice through native()); or a many-values-family program (an unrolled loop of 150-500 iterations with lag variables: thousands of SSA values with interleaved lifetimes); or a store-family program: literals, scalars and expressions narrower/equal/wider than the slot stored into array elements and struct fields, whole array and fields returned; or a fixture with unsized main(a, b uint) / []byte signatures instantiated from the exchanged input sizes, one keeping > 65535 wire ids live, one whose evaluator input wires straddle wire id 65536) run in streaming mode (Compiler.Stream against circuit.StreamEvaluator over a fragmenting tap; OT in {CO, COT}) on 1-3 boundary/random input pairs. " +
			"Oracle: no error, no stall, both parties' values identical and equal to the reference evaluation of the whole compiled circuit on the same inputs, output types and sizes identical to the circuit's. Distinct = hash(program, inputs).",
		Assumptions: []string{"refc on the whole compiled circuit is the specification (C03 relates that circuit to the program)"},
		NumCases: func(t string) int {
			if t == "thorough" {
				return 1500
			}
			return 150
		},
		CaseTimeout: 5 * time.Minute,
		MaxWorkers:  16,
		Run:         runC05,
		Finalize: func(a *vrt.Agg) error {
			if a.Counters["gates_encoded_16bit"] == 0 || a.Counters["gates_encoded_32bit"] == 0 {
				return fmt.Errorf("wire-id encodings observed: 16-bit %d, 32-bit %d (both are required)", a.Counters["gates_encoded_16bit"], a.Counters["gates_encoded_32bit"])
			}
			return nil
		},
	})
}

// runC05: most cases run alone; some run as concurrent sessions of the same
// case shape in one process (package-level state in the code under test).
func runC05(cs *vrt.Case) {
	if cs.Idx%10 == 9 {
		cs.Twins(2, func(sub *vrt.Case, _ *vrt.Rng) { runC05One(sub) })
		return
	}
	runC05One(cs)
}

// programs whose result depends on package-level variables of library packages
var c05LibPrograms = []struct {
	name, src string
	n         int // bytes per party
}{
	{"hex", "package main\n\nimport (\n\t\"encoding/hex\"\n)\n\nfunc main(a, b [4]byte) (string, uint8) {\n\treturn hex.EncodeToString(a), b[0] ^ b[3]\n}\n", 4},
	{"aes", "package main\n\nimport (\n\t\"crypto/aes\"\n)\n\nfunc main(k [16]byte, d [16]byte) [16]byte {\n\treturn aes.EncryptBlock(k, d)\n}\n", 16},
	{"hex+aes", "package main\n\nimport (\n\t\"crypto/aes\"\n\t\"encoding/hex\"\n)\n\nfunc main(k [16]byte, d [16]byte) (string, [16]byte) {\n\treturn hex.EncodeToString(d), aes.EncryptBlock(k, d)\n}\n", 16},
}

func runC05One(cs *vrt.Case) {
	r := cs.Rng
	var src string
	var gIn, eIn []string
	var what string
	var prog *mpclgen.Program
	var vec []mpclgen.Val
	srcFile := "" // set for programs that live in a directory (native circuits next to them)
	var reuseParams *utils.Params
	var reuseCC *compiler.Compiler
	npairs := 2
	if k := cs.Idx % 10; k < len(c05Fixtures) && (k < 2 || cs.Idx%30 == k) {
		f := c05Fixtures[k]
		src, what = f.src, "fixture "+f.name
		gIn, eIn = f.in(r)
		npairs = 1
	} else if k == 5 || k == 6 {
		src, gIn, eIn = c05StoreProgram(r)
		what = "store family"
		npairs = 1
	} else if k == 7 || k == 8 {
		src, gIn, eIn = c05AliasProgram(r)
		what = "alias family"
		npairs = 1
	} else if k == 4 {
		src, gIn, eIn = c05ManyValues(r)
		what = "many-values family"
		npairs = 1
	} else if k == 2 && cs.Idx%20 == 2 {
		// programs that read package-level variables of library packages,
		// streamed by a Compiler instance with a history: the same instance
		// compiled and/or streamed (this or another program importing the same
		// packages) before; the whole circuit comes from a fresh instance
		lp := c05LibPrograms[(cs.Idx/20)%len(c05LibPrograms)]
		src, what = lp.src, "library family on a reused Compiler instance: "+lp.name
		gIn, eIn = []string{"0x" + hex.EncodeToString(r.Bytes(lp.n))}, []string{"0x" + hex.EncodeToString(r.Bytes(lp.n))}
		npairs = 2
		reuseParams = utils.NewParams()
		reuseCC = compiler.New(reuseParams)
		if r.Bool() {
			other := c05LibPrograms[r.Intn(len(c05LibPrograms))]
			vrt.Guard(func() { reuseCC.Compile(other.src, nil) })
			cs.Count("compilations_in_the_history_of_a_streaming_instance", 1)
		}
	} else if k == 3 && cs.Idx%30 != 3 || k == 2 && cs.Idx%20 == 12 {
		dir, file, s, g, e, err := c05NativeProgram(r)
		if dir != "" {
			defer os.RemoveAll(dir)
		}
		if err != nil {
			cs.Inconc("native family: " + err.Error())
			return
		}
		src, gIn, eIn, srcFile = s, g, e, file
		what = "native-circuit family"
		npairs = 1
	} else {
		prog = mpclgen.Generate(r, c05GenCfg)
		src, what = prog.Src, "generated"
	}
	enc16a, enc32a := mpccircuit.VerifStreamEnc16.Load(), mpccircuit.VerifStreamEnc32.Load()
	for pair := 0; pair < npairs; pair++ {
		if prog != nil {
			vs, _ := genVectors(r, prog.ArgT, 1)
			vec = vs[len(vs)-1]
			if len(vs) > 1 {
				vec = vs[r.Intn(len(vs))]
			}
			gIn, eIn = valStrings(vec[0]), valStrings(vec[1])
		}
		gs, e1 := circuit.InputSizes(gIn)
		es, e2 := circuit.InputSizes(eIn)
		if e1 != nil || e2 != nil {
			cs.Inconc(fmt.Sprint("input sizes: ", e1, e2))
			return
		}
		c, err, pan := compileMPCL(src, utils.NewParams(), [][]int{gs, es})
		if srcFile != "" {
			c, err, pan = compileMPCLFile(srcFile, utils.NewParams(), [][]int{gs, es})
		}
		desc := map[string]any{"program": src, "kind": what, "g": trunc(strings.Join(gIn, " "), 200), "e": trunc(strings.Join(eIn, " "), 200)}
		cs.SetSample(map[string]any{"kind": what, "program": trunc(src, 800), "g": trunc(strings.Join(gIn, " "), 100), "e": trunc(strings.Join(eIn, " "), 100)})
		if pan != nil || err != nil {
			cs.Count("whole_circuit_compile_rejected", 1)
			if err != nil {
				cs.Seen("compile_rejections", what+": "+trimNum(lastLine(err.Error())))
			} else {
				cs.Seen("compile_rejections", what+": compiler panic")
			}
			return
		}
		if len(c.Inputs) != 2 {
			cs.Inconc("not a two-party program")
			return
		}
		x, ex := c.Inputs[0].Parse(gIn)
		y, ey := c.Inputs[1].Parse(eIn)
		if ex != nil || ey != nil {
			cs.Inconc(fmt.Sprint("parse inputs: ", ex, ey))
			return
		}
		flat, err := refc.EvalFlat(c, []*big.Int{refc.Flatten(c.Inputs, []*big.Int{x, y})})
		if err != nil {
			cs.Inconc(err.Error())
			return
		}
		want := refc.SplitOut(c.Outputs, flat[0])
		otk := cs.Idx % 2
		if strings.Contains(what, "across-65536") {
			otk = 1 // 65600 base OTs with CO take minutes
		}
		o := runStream(r, src, reuseParams, gIn, eIn, yaoOpts{ot: otk, kind: 2, stallWin: 30 * time.Second, srcName: srcFile, cc: reuseCC, shortReads: []int{0, 0, 0, 255, 0, 16, 0, 1}[cs.Idx%8]})
		if reuseCC != nil {
			cs.Count("streams_by_a_compiler_instance_with_history", 1)
		}
		cs.Evals++
		if pi := firstPanic(o.g, o.e); pi != nil {
			if pi.InMPC {
				cs.Violate("C05|panic|"+pi.Frame, "streaming party panicked: "+pi.Value, map[string]any{"case": desc, "stack": pi.Stack})
			} else {
				cs.Inconc("harness panic: " + pi.Value + "\n" + pi.Stack)
			}
			return
		}
		if o.stalled {
			cs.Violate("C05|stall", "streaming session stalled for 30 s", map[string]any{"case": desc})
			return
		}
		if o.g.err != nil || o.e.err != nil {
			cs.Violate("C05|error", fmt.Sprintf("honest streaming session failed: garbler=%v evaluator=%v", o.g.err, o.e.err), map[string]any{"case": desc})
			return
		}
		if len(o.gRes) != len(want) || len(o.eRes) != len(want) {
			cs.Violate("C05|arity", fmt.Sprintf("streaming returned %d/%d values, the circuit has %d outputs", len(o.gRes), len(o.eRes), len(want)), map[string]any{"case": desc})
			return
		}
		for i := range want {
			if o.gRes[i].Cmp(o.eRes[i]) != 0 {
				cs.Violate("C05|parties-disagree", fmt.Sprintf("output %d: garbler %s evaluator %s", i, o.gRes[i].Text(16), o.eRes[i].Text(16)), map[string]any{"case": desc})
				return
			}
			if o.gRes[i].Cmp(want[i]) != 0 {
				if prog != nil {
					// minimise while streaming and whole circuit still disagree on this input
					budget := 200
					otk := cs.Idx % 2
					prog.Minimise(func(s2 string) bool {
						if budget <= 0 {
							return false
						}
						budget--
						c2, err, pan := compileMPCL(s2, utils.NewParams(), [][]int{gs, es})
						if err != nil || pan != nil || c2 == nil {
							return false
						}
						f2, err := refc.EvalFlat(c2, []*big.Int{refc.Flatten(c2.Inputs, []*big.Int{x, y})})
						if err != nil {
							return false
						}
						w2 := refc.SplitOut(c2.Outputs, f2[0])
						o2 := runStream(r, s2, nil, gIn, eIn, yaoOpts{ot: otk, kind: 2, stallWin: 30 * time.Second})
						if firstPanic(o2.g, o2.e) != nil || o2.g.err != nil || o2.e.err != nil || len(o2.gRes) != len(w2) {
							return false
						}
						for k := range w2 {
							if o2.gRes[k].Cmp(w2[k]) != 0 {
								return true
							}
						}
						return false
					})
					desc["original_program"] = src
					desc["program"] = prog.Src
				}
				cs.Violate("C05|stream-vs-circuit", fmt.Sprintf("output %d: streaming %s, whole circuit %s", i, o.gRes[i].Text(16), want[i].Text(16)), map[string]any{"case": desc})
				return
			}
		}
		for _, io := range []circuit.IO{o.gIO, o.eIO} {
			if len(io) != len(c.Outputs) {
				cs.Violate("C05|output-types", "number of output descriptions differs", map[string]any{"case": desc})
				return
			}
			for i := range io {
				if io[i].Type.String() != c.Outputs[i].Type.String() || io[i].Type.Bits != c.Outputs[i].Type.Bits {
					cs.Violate("C05|output-types", fmt.Sprintf("output %d described as %s/%d, the circuit says %s/%d", i, io[i].Type, io[i].Type.Bits, c.Outputs[i].Type, c.Outputs[i].Type.Bits), map[string]any{"case": desc})
					return
				}
			}
		}
		cs.Key(src, strings.Join(gIn, ","), strings.Join(eIn, ","))
		cs.Seen("program_kinds", what)
	}
	cs.Count("gates_encoded_16bit", int64(mpccircuit.VerifStreamEnc16.Load()-enc16a))
	cs.Count("gates_encoded_32bit", int64(mpccircuit.VerifStreamEnc32.Load()-enc32a))
	if prog != nil {
		for f := range prog.Feat {
			cs.Seen("language_features", f)
		}
	}
}
