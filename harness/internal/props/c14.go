package props

import (
	"bytes"
	"encoding/binary"
	"fmt"
	"math/big"
	"strings"
	"time"

	"github.com/markkurossi/mpc/circuit"
	"github.com/markkurossi/mpc/types"

	"verifharness/internal/refc"
	"verifharness/internal/vrt"
)

// looseWellFormed is exactly what the property promises of an accepted
// circuit: every gate input is defined before use and every wire is assigned
// (plus the counts the struct itself states).
func looseWellFormed(c *circuit.Circuit) error {
	if c.NumGates != len(c.Gates) {
		return fmt.Errorf("NumGates=%d but %d gates", c.NumGates, len(c.Gates))
	}
	if c.NumWires < 0 || c.NumWires > 50_000_000 {
		return fmt.Errorf("NumWires=%d", c.NumWires)
	}
	def := make([]bool, c.NumWires)
	nin := 0
	for _, a := range c.Inputs {
		if a.Type.Bits < 0 {
			return fmt.Errorf("negative input width")
		}
		nin += int(a.Type.Bits)
	}
	if nin > c.NumWires {
		return fmt.Errorf("%d input wires but only %d wires", nin, c.NumWires)
	}
	for i := 0; i < nin; i++ {
		def[i] = true
	}
	for i, g := range c.Gates {
		if g.Op > circuit.INV {
			return fmt.Errorf("gate %d: bad op", i)
		}
		if int(g.Input0) >= c.NumWires || !def[g.Input0] {
			return fmt.Errorf("gate %d: input0 w%d used before it is defined", i, g.Input0)
		}
		if g.Op != circuit.INV && (int(g.Input1) >= c.NumWires || !def[g.Input1]) {
			return fmt.Errorf("gate %d: input1 w%d used before it is defined", i, g.Input1)
		}
		if int(g.Output) >= c.NumWires {
			return fmt.Errorf("gate %d: output w%d out of range", i, g.Output)
		}
		def[g.Output] = true
	}
	for w, d := range def {
		if !d {
			return fmt.Errorf("wire w%d never assigned", w)
		}
	}
	return nil
}

// mpclcField is one field of a native circuit file as laid out by the writer.
type mpclcField struct {
	off, n int
	kind   string
}

// walkMPCLC walks the framing of a (possibly mutated) file the way the
// format is specified and returns the fields it could delimit and the largest
// count/length the file declares.
func walkMPCLC(b []byte) (fields []mpclcField, maxDecl uint64) {
	pos := 0
	u32 := func(kind string) (uint32, bool) {
		if pos+4 > len(b) {
			return 0, false
		}
		v := binary.BigEndian.Uint32(b[pos:])
		fields = append(fields, mpclcField{pos, 4, kind})
		pos += 4
		return v, true
	}
	decl := func(v uint32) {
		if uint64(v) > maxDecl {
			maxDecl = uint64(v)
		}
	}
	var hdr [5]uint32
	for i, k := range []string{"magic", "numGates", "numWires", "numInputs", "numOutputs"} {
		v, ok := u32(k)
		if !ok {
			return
		}
		hdr[i] = v
		if i > 0 {
			decl(v)
		}
	}
	var arg func(depth int) bool
	arg = func(depth int) bool {
		for _, k := range []string{"nameLen", "typeLen"} {
			l, ok := u32(k)
			if !ok {
				return false
			}
			decl(l)
			if l > 1_000_000 {
				return false
			}
			if pos+int(l) > len(b) {
				return false
			}
			if l > 0 {
				fields = append(fields, mpclcField{pos, int(l), "str"})
			}
			pos += int(l)
		}
		if _, ok := u32("bits"); !ok {
			return false
		}
		cc, ok := u32("compound")
		if !ok {
			return false
		}
		decl(cc)
		if cc > 1_000_000 || depth > 64 {
			return false
		}
		for i := uint32(0); i < cc; i++ {
			if !arg(depth + 1) {
				return false
			}
		}
		return true
	}
	if maxDecl > 1_000_000 {
		return
	}
	for i := uint32(0); i < hdr[3]+hdr[4]; i++ {
		if !arg(0) {
			return
		}
	}
	for pos < len(b) {
		op := b[pos]
		fields = append(fields, mpclcField{pos, 1, "op"})
		pos++
		n := 3
		if circuit.Operation(op) == circuit.INV {
			n = 2
		} else if circuit.Operation(op) > circuit.INV {
			return
		}
		for i := 0; i < n; i++ {
			if _, ok := u32("wire"); !ok {
				return
			}
		}
	}
	return
}

func ioArgEqual(a, b circuit.IOArg, path string) error {
	if a.Name != b.Name {
		return fmt.Errorf("%s: name %q != %q", path, a.Name, b.Name)
	}
	if a.Type.String() != b.Type.String() || a.Type.Type != b.Type.Type {
		return fmt.Errorf("%s: type %s != %s", path, a.Type, b.Type)
	}
	if a.Type.Bits != b.Type.Bits {
		return fmt.Errorf("%s: size %d != %d", path, a.Type.Bits, b.Type.Bits)
	}
	if a.Type.Type == types.TArray {
		if a.Type.ArraySize != b.Type.ArraySize {
			return fmt.Errorf("%s: array size %d != %d", path, a.Type.ArraySize, b.Type.ArraySize)
		}
		if (a.Type.ElementType == nil) != (b.Type.ElementType == nil) || a.Type.ElementType != nil && a.Type.ElementType.String() != b.Type.ElementType.String() {
			return fmt.Errorf("%s: element type differs", path)
		}
	}
	if len(a.Compound) != len(b.Compound) {
		return fmt.Errorf("%s: %d compound members != %d", path, len(a.Compound), len(b.Compound))
	}
	for i := range a.Compound {
		if err := ioArgEqual(a.Compound[i], b.Compound[i], fmt.Sprintf("%s.%d", path, i)); err != nil {
			return err
		}
	}
	return nil
}

func gatesEqual(a, b *circuit.Circuit) error {
	if a.NumGates != b.NumGates || a.NumWires != b.NumWires || len(a.Gates) != len(b.Gates) {
		return fmt.Errorf("counts differ: gates %d/%d wires %d/%d", a.NumGates, b.NumGates, a.NumWires, b.NumWires)
	}
	for i := range a.Gates {
		x, y := a.Gates[i], b.Gates[i]
		if x.Op != y.Op || x.Input0 != y.Input0 || x.Output != y.Output || x.Op != circuit.INV && x.Input1 != y.Input1 {
			return fmt.Errorf("gate %d differs: %v vs %v", i, x, y)
		}
	}
	return nil
}

func c14RandType(r *vrt.Rng, depth int) types.Info {
	switch k := r.Intn(8); {
	case k < 2:
		return uintT(vrt.Pick(r, c13Widths))
	case k < 4:
		return intT(vrt.Pick(r, c13Widths))
	case k == 4:
		return types.Bool
	case k == 5 && depth < 2:
		el := c14RandType(r, depth+1)
		n := r.Intn(5)
		return types.Info{Type: types.TArray, IsConcrete: true, Bits: types.Size(n) * el.Bits, MinBits: types.Size(n) * el.Bits, ArraySize: types.Size(n), ElementType: &el}
	case k == 6:
		n := r.Range(1, 20)
		return types.Info{Type: types.TString, IsConcrete: true, Bits: types.Size(8 * n), MinBits: types.Size(8 * n)}
	default:
		return uintT(r.Range(1, 64))
	}
}

// c14Circuit builds a random circuit whose I/O signature uses typed, named,
// compound arguments laid over the generator's wires.
func c14Circuit(r *vrt.Rng) *circuit.Circuit {
	mkIO := func(prefix string, total int) circuit.IO {
		var io circuit.IO
		left := total
		for left > 0 {
			if r.Intn(3) == 0 && left >= 2 {
				// compound argument with members
				arg := circuit.IOArg{Name: fmt.Sprintf("%s%d", prefix, len(io))}
				bits := 0
				for m := r.Range(1, 4); m > 0 && left-bits > 0; m-- {
					t := c14RandType(r, 0)
					if int(t.Bits) > left-bits || t.Bits == 0 {
						t = uintT(1 + r.Intn(left-bits))
					}
					nm := fmt.Sprintf("f%d", len(arg.Compound))
					if r.Intn(5) == 0 {
						nm = ""
					}
					arg.Compound = append(arg.Compound, circuit.IOArg{Name: nm, Type: t})
					bits += int(t.Bits)
				}
				arg.Type = types.Info{Type: types.TStruct, IsConcrete: true, Bits: types.Size(bits), MinBits: types.Size(bits)}
				io = append(io, arg)
				left -= bits
				continue
			}
			t := c14RandType(r, 0)
			if int(t.Bits) > left || t.Bits == 0 {
				t = uintT(1 + r.Intn(left))
			}
			nm := fmt.Sprintf("%s%d", prefix, len(io))
			switch r.Intn(12) {
			case 0:
				nm = ""
			case 1:
				nm = strings.Repeat("n", r.Range(100, 9000)) // long names
			case 2:
				nm = "ünï©ode-" + nm
			case 3, 4: // every short length, and lengths next to powers of two
				n := r.Range(1, 300)
				if r.Intn(3) == 0 {
					n = (1 << uint(r.Range(3, 12))) + r.Range(-5, 5)
				}
				nm = strings.Repeat("k", n)
			}
			io = append(io, circuit.IOArg{Name: nm, Type: t})
			left -= int(t.Bits)
		}
		return io
	}
	sh := refc.RandShape(r, 1, vrt.Pick(r, []int{4, 20, 80}))
	if r.Intn(6) == 0 {
		sh.Ops = []circuit.Operation{circuit.INV}
	}
	sh.Args = []int{r.Range(1, 40)}
	sh.Outs = []int{r.Range(1, 24)}
	c := refc.Gen(r, sh)
	c.Inputs = mkIO("a", c.Inputs.Size())
	c.Outputs = mkIO("r", c.Outputs.Size())
	return c
}

var c14Programs = []string{
	`package main

type S struct {
	a int8
	b [3]uint16
	c bool
}

func main(g S, e [2]uint32) (uint16, [2]uint32, bool) {
	return g.b[1] + uint16(g.a), e, g.c
}
`,
	`package main

func main(a, b [4]byte) ([4]byte, uint8) {
	var r [4]byte
	for i := 0; i < 4; i++ {
		r[i] = a[i] ^ b[i]
	}
	return r, a[0] & b[3]
}
`,
	`package main

type P struct {
	x uint5
	y int9
}

type Q struct {
	p P
	z [2]P
}

func main(q Q, k uint3) (int9, uint5) {
	p := q.p
	return p.y, p.x + uint5(k)
}
`,
}

func init() {
	vrt.Register(&vrt.Prop{
		ID: "C14", Level: "fault_enumeration",
		Rule: "O1 round trip: generated circuits with typed/compound/array/string I/O, empty, long, non-ASCII names and names of every length 1-300 and next to powers of two, INV-only bodies, and compiled struct/array programs: Marshal->ParseMPCLC->Marshal byte-identical, same gates/counts/signature, same function on sampled inputs; same for Bristol; types.Parse(Info.String()) round trip. " +
			"O2 malformed input: a valid file is mutated on a model of its layout (truncation at every byte, every single-bit flip for small files, extension by valid gates / random tails, gate swap/duplication/removal, header and count fields set to chosen or PRNG values); files declaring a size > 10^6 are outside the precondition and skipped (counted). " +
			"Oracle: parser returns an error, or a circuit whose every gate input is defined before use and every wire assigned; a panic or hang is a violation. Distinct = hash of the mutated bytes; non-trivial = differs from the valid file.",
		NumCases: func(t string) int {
			if t == "thorough" {
				return 3000
			}
			return 400
		},
		CaseTimeout: 90 * time.Second,
		HangVerdict: func(idx int, stacks string) (string, string) {
			if strings.Contains(stacks, "circuit.ParseMPCLC") || strings.Contains(stacks, "circuit.ParseBristol") || strings.Contains(stacks, "types.Parse") {
				return "C14|hang", "parser still running after 90 s on a small input"
			}
			return "", ""
		},
		Run: runC14,
		Finalize: func(a *vrt.Agg) error {
			if a.Counters["rejected"] == 0 || a.Counters["accepted_wellformed"] == 0 {
				return fmt.Errorf("mutations did not produce both rejected (%d) and accepted (%d) files", a.Counters["rejected"], a.Counters["accepted_wellformed"])
			}
			return nil
		},
	})
}

// runC14: most cases run alone; some run as 2-3 concurrent sessions of the
// same case shape in one process (package-level state in the code under test).
func runC14(cs *vrt.Case) {
	if cs.Idx%5 != 0 && cs.Idx%3 == 1 {
		cs.Twins(2+(cs.Idx/7)%2, func(sub *vrt.Case, _ *vrt.Rng) { runC14One(sub) })
		return
	}
	runC14One(cs)
}

func runC14One(cs *vrt.Case) {
	r := cs.Rng
	switch cs.Idx % 5 {
	case 0:
		c14RoundTrip(cs, r)
	case 1:
		c14Types(cs, r)
	case 2, 3:
		c14MutateMPCLC(cs, r)
	default:
		c14MutateBristol(cs, r)
	}
}

func c14RoundTrip(cs *vrt.Case, r *vrt.Rng) {
	var c *circuit.Circuit
	kind := "generated"
	if k := cs.Idx/5 - len(c14Programs); k >= 0 && k < 4 {
		// programs with unsized (slice / string / uint) arguments instantiated
		// from input sizes: their I/O types carry a size that the type text alone
		// does not give
		kind = "compiled with instantiated unsized arguments"
		src := []string{
			"package main\n\nfunc main(a, b []byte) ([]byte, uint8) {\n\tvar s uint8\n\tfor i := 0; i < len(a); i++ {\n\t\ts = s ^ a[i]\n\t}\n\treturn b, s\n}\n",
			"package main\n\nfunc main(a []uint16, b uint) (uint, uint16) {\n\treturn b + 1, a[0] + a[len(a)-1]\n}\n",
			"package main\n\nfunc main(a []byte, b []byte) ([]byte, []byte, uint8) {\n\treturn b, a, a[0] ^ b[0]\n}\n",
			"package main\n\nfunc main(a []int32, b []byte) ([]int32, []byte) {\n\treturn a, b\n}\n",
		}[k]
		n1, n2 := r.Range(1, 9), r.Range(1, 9)
		es := []int{8, 16, 8, 32}[k]
		sizes := [][]int{{n1 * es}, {n2 * 8}}
		if k == 1 {
			sizes[1] = []int{r.Range(2, 70)}
		}
		var err error
		var pi *vrt.PanicInfo
		c, err, pi = compileMPCL(src, nil, sizes)
		if pi != nil || err != nil {
			cs.Inconc(fmt.Sprintf("fixture program with unsized arguments does not compile: %v %v", err, pi))
			return
		}
		cs.Count("roundtrips_of_instantiated_unsized_signatures", 1)
	} else if cs.Idx/5 < len(c14Programs) {
		kind = "compiled"
		var err error
		var pi *vrt.PanicInfo
		c, err, pi = compileMPCL(c14Programs[cs.Idx/5], nil, nil)
		if pi != nil || err != nil {
			cs.Inconc(fmt.Sprintf("fixture program does not compile: %v %v", err, pi))
			return
		}
	} else {
		c = c14Circuit(r)
	}
	desc := map[string]any{"kind": "roundtrip/" + kind, "inputs": trunc(c.Inputs.String(), 200), "outputs": trunc(c.Outputs.String(), 200), "gates": len(c.Gates)}
	cs.SetSample(desc)
	var b1, b2 bytes.Buffer
	var c2 *circuit.Circuit
	var err error
	pi := vrt.Guard(func() {
		if err = c.Marshal(&b1); err != nil {
			return
		}
		if c2, err = circuit.ParseMPCLC(bytes.NewReader(b1.Bytes())); err != nil {
			return
		}
		err = c2.Marshal(&b2)
	})
	cs.Evals++
	longName := false
	for _, a := range append(append(circuit.IO{}, c.Inputs...), c.Outputs...) {
		if len(a.Name) > 64 {
			longName = true
		}
	}
	cls := ""
	if longName {
		cls = "|long-name"
	}
	switch {
	case pi != nil:
		cs.Violate("C14|roundtrip-panic|"+pi.Frame, "native round trip panicked: "+pi.Value, map[string]any{"case": desc, "stack": pi.Stack})
		return
	case err != nil:
		cs.Violate("C14|roundtrip-error"+cls, "native round trip failed: "+err.Error(), map[string]any{"case": desc})
		return
	case !bytes.Equal(b1.Bytes(), b2.Bytes()):
		cs.Violate("C14|roundtrip-bytes"+cls, "re-marshalled bytes differ", map[string]any{"case": desc})
		return
	}
	if e := gatesEqual(c, c2); e != nil {
		cs.Violate("C14|roundtrip-gates", e.Error(), map[string]any{"case": desc})
		return
	}
	if len(c.Inputs) != len(c2.Inputs) || len(c.Outputs) != len(c2.Outputs) {
		cs.Violate("C14|roundtrip-signature", "argument counts differ", map[string]any{"case": desc})
		return
	}
	for i := range c.Inputs {
		if e := ioArgEqual(c.Inputs[i], c2.Inputs[i], fmt.Sprintf("in%d", i)); e != nil {
			cs.Violate("C14|roundtrip-signature"+cls, e.Error(), map[string]any{"case": desc})
			return
		}
	}
	for i := range c.Outputs {
		if e := ioArgEqual(c.Outputs[i], c2.Outputs[i], fmt.Sprintf("out%d", i)); e != nil {
			cs.Violate("C14|roundtrip-signature"+cls, e.Error(), map[string]any{"case": desc})
			return
		}
	}
	vecs, _ := allOrSampled(r, c.Inputs.Size(), 6, 32)
	o1, e1 := refc.EvalFlat(c, vecs)
	o2, e2 := refc.EvalFlat(c2, vecs)
	if e1 != nil || e2 != nil {
		cs.Inconc(fmt.Sprint(e1, e2))
		return
	}
	for i := range o1 {
		if o1[i].Cmp(o2[i]) != 0 {
			cs.Violate("C14|roundtrip-function", "parsed circuit computes a different function", map[string]any{"case": desc})
			return
		}
	}
	// Bristol
	var t1, t2 bytes.Buffer
	var c3 *circuit.Circuit
	pi = vrt.Guard(func() {
		if err = c.MarshalBristol(&t1); err != nil {
			return
		}
		if c3, err = circuit.ParseBristol(bytes.NewReader(t1.Bytes())); err != nil {
			return
		}
		err = c3.MarshalBristol(&t2)
	})
	cs.Evals++
	switch {
	case pi != nil:
		cs.Violate("C14|bristol-panic|"+pi.Frame, "Bristol round trip panicked: "+pi.Value, map[string]any{"case": desc, "stack": pi.Stack})
		return
	case err != nil:
		cs.Violate("C14|bristol-error", "Bristol round trip failed: "+err.Error(), map[string]any{"case": desc})
		return
	case !bytes.Equal(t1.Bytes(), t2.Bytes()):
		cs.Violate("C14|bristol-bytes", "re-marshalled Bristol text differs", map[string]any{"case": desc})
		return
	}
	if e := gatesEqual(c, c3); e != nil {
		cs.Violate("C14|bristol-gates", e.Error(), map[string]any{"case": desc})
		return
	}
	if len(c3.Inputs) != len(c.Inputs) || len(c3.Outputs) != len(c.Outputs) {
		cs.Violate("C14|bristol-signature", "argument counts differ", map[string]any{"case": desc})
		return
	}
	for i := range c.Inputs {
		if c.Inputs[i].Type.Bits != c3.Inputs[i].Type.Bits {
			cs.Violate("C14|bristol-signature", "input sizes differ", map[string]any{"case": desc})
			return
		}
	}
	for i := range c.Outputs {
		if c.Outputs[i].Type.Bits != c3.Outputs[i].Type.Bits {
			cs.Violate("C14|bristol-signature", "output sizes differ", map[string]any{"case": desc})
			return
		}
	}
	cs.Key("rt", fmt.Sprint(vrt.HashBytes(b1.Bytes())))
	cs.Count("roundtrips", 1)
}

func trunc(s string, n int) string {
	if len(s) > n {
		return s[:n] + "…"
	}
	return s
}

func c14Types(cs *vrt.Case, r *vrt.Rng) {
	for i := 0; i < 40; i++ {
		t := c14RandType(r, 0)
		s := t.String()
		var p types.Info
		var err error
		if pi := vrt.Guard(func() { p, err = types.Parse(s) }); pi != nil {
			cs.Violate("C14|types-panic|"+pi.Frame, "types.Parse panicked on "+s, map[string]any{"stack": pi.Stack})
			return
		}
		cs.Evals++
		if err != nil {
			cs.Violate("C14|types-error", "types.Parse rejected its own rendering "+s+": "+err.Error(), nil)
			return
		}
		var cmp func(a, b types.Info) bool
		cmp = func(a, b types.Info) bool {
			if a.Type != b.Type || a.Bits != b.Bits {
				return false
			}
			if a.Type == types.TArray {
				return a.ArraySize == b.ArraySize && a.ElementType != nil && b.ElementType != nil && cmp(*a.ElementType, *b.ElementType)
			}
			return true
		}
		if !cmp(t, p) || p.String() != s {
			cs.Violate("C14|types-roundtrip", fmt.Sprintf("types.Parse(%q) = %s (%d bits)", s, p, p.Bits), nil)
			return
		}
		cs.Key("type", s)
	}
	cs.SetSample(map[string]any{"kind": "types.Parse round trip", "n": 40})
	// hostile type strings must not panic
	for i := 0; i < 60; i++ {
		base := c14RandType(r, 0).String()
		b := []byte(base)
		switch r.Intn(4) {
		case 0:
			if len(b) > 0 {
				b[r.Intn(len(b))] ^= 1 << uint(r.Intn(8))
			}
		case 1:
			b = append(b, r.Bytes(r.Intn(6))...)
		case 2:
			b = b[:r.Intn(len(b)+1)]
		default:
			b = []byte(strings.Repeat("[", r.Intn(50)) + base + fmt.Sprint(r.U64()))
		}
		if pi := vrt.Guard(func() { types.Parse(string(b)) }); pi != nil {
			cs.Violate("C14|types-panic|"+pi.Frame, fmt.Sprintf("types.Parse panicked on %q: %s", b, pi.Value), map[string]any{"stack": pi.Stack})
			return
		}
		cs.Evals++
	}
}

// judgeParse applies O2 to one input of one parser.
func c14Judge(cs *vrt.Case, format, mutation string, data []byte, valid []byte) {
	var c *circuit.Circuit
	var err error
	pi := vrt.Guard(func() {
		if format == "mpclc" {
			c, err = circuit.ParseMPCLC(bytes.NewReader(data))
		} else {
			c, err = circuit.ParseBristol(bytes.NewReader(data))
		}
	})
	cs.Evals++
	if !bytes.Equal(data, valid) {
		cs.Keys = append(cs.Keys, vrt.HashBytes(data))
	}
	switch {
	case pi != nil:
		if !pi.InMPC {
			cs.Inconc("harness panic: " + pi.Value + "\n" + pi.Stack)
			return
		}
		cls := mutation
		cs.Violate("C14|parser-panic|"+format+"|"+pi.Frame+"|"+cls, fmt.Sprintf("%s parser panicked (%s): %s", format, mutation, pi.Value),
			map[string]any{"mutation": mutation, "file_hex": hexTrunc(data), "stack": pi.Stack})
	case err != nil:
		cs.Count("rejected", 1)
	case c == nil:
		cs.Violate("C14|nil-without-error|"+format, "parser returned neither circuit nor error", map[string]any{"mutation": mutation, "file_hex": hexTrunc(data)})
	default:
		if e := looseWellFormed(c); e != nil {
			cs.Violate("C14|accepted-malformed|"+format+"|"+mutation, fmt.Sprintf("%s parser accepted a malformed file (%s): %v", format, mutation, e),
				map[string]any{"mutation": mutation, "file_hex": hexTrunc(data)})
			return
		}
		cs.Count("accepted_wellformed", 1)
	}
}

func hexTrunc(b []byte) string {
	if len(b) > 4096 {
		return fmt.Sprintf("%x… (%d bytes)", b[:4096], len(b))
	}
	return fmt.Sprintf("%x", b)
}

var c14HostileTypes = []string{
	"[]uint0", "[]uint", "[]int0", "[]struct", "[]struct0", "[][]uint8", "[]string", "[]string0", "[]bool0", "[]", "[", "]", "[]uint8", "[]uint1", "[]int64",
	"[0]uint8", "[4]uint0", "[4]uint", "[2][0]uint8", "[2][]uint8", "[1][1][1][1][1][1][1][1]uint1", "[99999999999999999999]uint8", "[4294967296]uint1", "[-1]uint8", "[ 4]uint8", "[4] uint8",
	"uint0", "int0", "uint", "int", "bool0", "bool2", "string0", "string7", "string", "struct0", "struct", "uint4294967296", "uint-1", "uint08", "uint8x", "float32", "", " ", "uint8\x00", "\xff\xfe",
}

func c14MutateMPCLC(cs *vrt.Case, r *vrt.Rng) {
	sh := refc.RandShape(r, r.Range(1, 2), vrt.Pick(r, []int{1, 3, 8, 20}))
	sh.Named = r.Bool()
	c := refc.Gen(r, sh)
	if r.Intn(3) == 0 {
		// a signature of typed, named, compound arguments (arrays, strings,
		// structs) instead of plain uints
		c = c14Circuit(r)
	}
	var vb bytes.Buffer
	c.Marshal(&vb)
	valid := vb.Bytes()
	fields, _ := walkMPCLC(valid)
	small := len(valid) <= 260
	cs.SetSample(map[string]any{"kind": "mutate mpclc", "file_bytes": len(valid), "gates": len(c.Gates), "exhaustive": small})
	try := func(mut string, data []byte) {
		if _, maxDecl := walkMPCLC(data); maxDecl > 1_000_000 {
			cs.Count("skipped_precondition", 1)
			return
		}
		c14Judge(cs, "mpclc", mut, data, valid)
	}
	try("none", valid)
	// truncation
	if small || cs.Thorough() && len(valid) < 1500 {
		for n := 0; n < len(valid); n++ {
			try("truncate", valid[:n])
		}
		cs.Count("exhaustive_truncations", 1)
	} else {
		for i := 0; i < 60; i++ {
			try("truncate", valid[:r.Intn(len(valid))])
		}
	}
	// single-bit flips
	if small {
		for p := 0; p < len(valid)*8; p++ {
			d := append([]byte(nil), valid...)
			d[p/8] ^= 1 << uint(p%8)
			try("bitflip", d)
		}
		cs.Count("exhaustive_bitflips", 1)
	} else {
		for i := 0; i < 300; i++ {
			d := append([]byte(nil), valid...)
			p := r.Intn(len(valid) * 8)
			d[p/8] ^= 1 << uint(p%8)
			try("bitflip", d)
		}
	}
	// extension
	gateBytes := func(g circuit.Gate) []byte {
		var b bytes.Buffer
		b.WriteByte(byte(g.Op))
		binary.Write(&b, binary.BigEndian, uint32(g.Input0))
		if g.Op != circuit.INV {
			binary.Write(&b, binary.BigEndian, uint32(g.Input1))
		}
		binary.Write(&b, binary.BigEndian, uint32(g.Output))
		return b.Bytes()
	}
	for i := 0; i < 12; i++ {
		g := circuit.Gate{Op: circuit.Operation(r.Intn(5)), Input0: circuit.Wire(r.Intn(c.NumWires)), Input1: circuit.Wire(r.Intn(c.NumWires)), Output: circuit.Wire(r.Intn(c.NumWires + 1))}
		d := append(append([]byte(nil), valid...), gateBytes(g)...)
		for k := r.Intn(3); k > 0; k-- {
			d = append(d, gateBytes(c.Gates[r.Intn(len(c.Gates))])...)
		}
		try("extend-valid-gate", d)
		d2 := append([]byte(nil), d...)
		// and the same with the header adjusted so that counts agree
		binary.BigEndian.PutUint32(d2[4:], uint32(c.NumGates+1))
		try("extend-valid-gate+header", d2)
		try("extend-random", append(append([]byte(nil), valid...), r.Bytes(r.Range(1, 40))...))
	}
	// field splicing
	var counts, wires, ops []mpclcField
	for _, f := range fields {
		switch f.kind {
		case "numGates", "numWires", "numInputs", "numOutputs", "nameLen", "typeLen", "compound", "bits":
			counts = append(counts, f)
		case "wire":
			wires = append(wires, f)
		case "op":
			ops = append(ops, f)
		}
	}
	for _, f := range counts {
		orig := binary.BigEndian.Uint32(valid[f.off:])
		for _, v := range []uint32{0, 1, orig - 1, orig + 1, orig * 2, 255, 4096, 65536, 1_000_000, uint32(r.Intn(1_000_001)), 1_000_001, 0x7fffffff, 0xffffffff} {
			d := append([]byte(nil), valid...)
			binary.BigEndian.PutUint32(d[f.off:], v)
			try("count-field:"+f.kind, d)
		}
	}
	for i := 0; i < 40 && len(wires) > 0; i++ {
		f := wires[r.Intn(len(wires))]
		d := append([]byte(nil), valid...)
		binary.BigEndian.PutUint32(d[f.off:], uint32(r.Intn(c.NumWires+3)))
		try("wire-field", d)
	}
	// type-text splicing: the type name of an argument (length field kept
	// consistent) replaced by well-formed-looking and hostile type texts:
	// zero-width and unsized elements, nested and empty arrays and slices,
	// absurd sizes, unknown names
	nType := 0
	for _, f := range fields {
		if f.kind != "typeLen" || nType >= 6 {
			continue
		}
		nType++
		l := int(binary.BigEndian.Uint32(valid[f.off:]))
		if f.off+4+l > len(valid) {
			continue
		}
		for _, txt := range c14HostileTypes {
			var d []byte
			d = append(d, valid[:f.off]...)
			d = binary.BigEndian.AppendUint32(d, uint32(len(txt)))
			d = append(d, txt...)
			d = append(d, valid[f.off+4+l:]...)
			try("type-text", d)
		}
		cs.Count("type_text_splices", int64(len(c14HostileTypes)))
	}
	if len(ops) >= 2 {
		end := func(i int) int {
			if i+1 < len(ops) {
				return ops[i+1].off
			}
			return len(valid)
		}
		for i := 0; i < 20; i++ {
			a, b := r.Intn(len(ops)), r.Intn(len(ops))
			if a > b {
				a, b = b, a
			}
			if a == b {
				continue
			}
			ga, gb := valid[ops[a].off:end(a)], valid[ops[b].off:end(b)]
			var d []byte
			d = append(d, valid[:ops[a].off]...)
			d = append(d, gb...)
			d = append(d, valid[end(a):ops[b].off]...)
			d = append(d, ga...)
			d = append(d, valid[end(b):]...)
			try("swap-gates", d)
			// duplicate gate a at position b
			var e []byte
			e = append(e, valid[:ops[b].off]...)
			e = append(e, ga...)
			e = append(e, valid[ops[b].off:]...)
			try("duplicate-gate", e)
			e2 := append([]byte(nil), e...)
			binary.BigEndian.PutUint32(e2[4:], uint32(c.NumGates+1))
			try("duplicate-gate+header", e2)
			// remove gate a
			var f []byte
			f = append(f, valid[:ops[a].off]...)
			f = append(f, valid[end(a):]...)
			try("remove-gate", f)
			f2 := append([]byte(nil), f...)
			binary.BigEndian.PutUint32(f2[4:], uint32(c.NumGates-1))
			try("remove-gate+header", f2)
		}
	}
}

func c14MutateBristol(cs *vrt.Case, r *vrt.Rng) {
	sh := refc.RandShape(r, r.Range(1, 3), vrt.Pick(r, []int{1, 3, 8, 20}))
	c := refc.Gen(r, sh)
	var vb bytes.Buffer
	c.MarshalBristol(&vb)
	valid := vb.Bytes()
	small := len(valid) <= 200
	cs.SetSample(map[string]any{"kind": "mutate bristol", "file_bytes": len(valid), "gates": len(c.Gates), "exhaustive": small})
	try := func(mut string, data []byte) {
		// precondition: the first line's declared counts are at most 10^6
		first := string(data)
		if i := strings.IndexByte(first, '\n'); i >= 0 {
			first = first[:i]
		}
		for _, tok := range strings.Fields(first) {
			v, ok := new(big.Int).SetString(tok, 10)
			if ok && v.Cmp(big.NewInt(1_000_000)) > 0 {
				cs.Count("skipped_precondition", 1)
				return
			}
		}
		c14Judge(cs, "bristol", mut, data, valid)
	}
	try("none", valid)
	if small || cs.Thorough() && len(valid) < 1200 {
		for n := 0; n < len(valid); n++ {
			try("truncate", valid[:n])
		}
		cs.Count("exhaustive_truncations", 1)
	} else {
		for i := 0; i < 60; i++ {
			try("truncate", valid[:r.Intn(len(valid))])
		}
	}
	if small {
		for p := 0; p < len(valid)*8; p++ {
			d := append([]byte(nil), valid...)
			d[p/8] ^= 1 << uint(p%8)
			try("bitflip", d)
		}
		cs.Count("exhaustive_bitflips", 1)
	} else {
		for i := 0; i < 300; i++ {
			d := append([]byte(nil), valid...)
			p := r.Intn(len(valid) * 8)
			d[p/8] ^= 1 << uint(p%8)
			try("bitflip", d)
		}
	}
	lines := strings.Split(strings.TrimRight(string(valid), "\n"), "\n")
	join := func(ls []string) []byte { return []byte(strings.Join(ls, "\n") + "\n") }
	for i := 0; i < 40; i++ {
		ls := append([]string(nil), lines...)
		a, b := r.Intn(len(ls)), r.Intn(len(ls))
		switch r.Intn(6) {
		case 0:
			ls[a], ls[b] = ls[b], ls[a]
			try("swap-lines", join(ls))
		case 1:
			ls = append(ls[:a], append([]string{ls[b]}, ls[a:]...)...)
			try("duplicate-line", join(ls))
		case 2:
			ls = append(ls[:a], ls[a+1:]...)
			try("remove-line", join(ls))
		case 3:
			// replace one number token
			toks := strings.Fields(ls[a])
			if len(toks) > 0 {
				k := r.Intn(len(toks))
				toks[k] = fmt.Sprint(vrt.Pick(r, []int{0, 1, -1, 2, c.NumWires, c.NumWires + 1, 1_000_000, r.Intn(1_000_001), 1 << 31, -5}))
				ls[a] = strings.Join(toks, " ")
				try("number-token", join(ls))
			}
		case 4:
			ls = append(ls, fmt.Sprintf("2 1 %d %d %d %s", r.Intn(c.NumWires), r.Intn(c.NumWires), r.Intn(c.NumWires+1), vrt.Pick(r, []string{"XOR", "AND", "OR", "XNOR", "NAND", ""})))
			try("extend-valid-gate", join(ls))
			ls[0] = fmt.Sprintf("%d %d", c.NumGates+1, c.NumWires+r.Intn(2))
			try("extend-valid-gate+header", join(ls))
		default:
			try("extend-random", append(append([]byte(nil), valid...), r.Bytes(r.Range(1, 30))...))
		}
	}
	// hostile headers
	for _, h := range []string{"", "\n", "1", "1 2 3", "a b", "0 0", "-1 5", "1 1\n", "1 3\n\n", "1 3\n0\n", "1 3\n2 1\n", "1 3\n1 2\n", "1 3\n1 2\n1\n", "1 3\n1 2\n2 1\n", "1 3\n1 2\n1 1\n\n2 1 0 1 2\n", "1 3\n1 2\n1 1\n\n0 0 XOR\n", "1 3\n1 2\n1 1\n\n2 0 0 1 XOR\n", "1 3\n1 2\n1 1\n\n1 1 0 2 XOR\n", "1 3\n1 2\n1 1\n\n1 2 0 2 2 INV\n", "1 3\n1 2\n1 1\n\n3 1 0 1 1 2 AND\n"} {
		try("hostile-header", []byte(h))
	}
}
