package props

import (
	"fmt"
	"math/big"

	"github.com/markkurossi/mpc/circuit"
	"github.com/markkurossi/mpc/ot"

	"verifharness/internal/refc"
	"verifharness/internal/vrt"
)

// steer is the label randomness handed to Circuit.Garble: PRNG bytes, except
// that the point-and-permute bit (top bit of a label's first byte) of the
// k-th label read is forced to sbits[k] when given.
type steer struct {
	r     *vrt.Rng
	sbits []int // -1 / absent = leave random
	n     int
	// keep: do not Release the garbling afterwards (reuse histories)
	keep bool
	// degen: a degenerate label source. 1: all bytes zero, 2: all bytes 0xff,
	// 3: every label read is all-zero with probability 1/3 (PRNG otherwise),
	// 4: every label read returns the same 16 bytes, 5: only the first read
	// (the global offset) is random, all labels zero
	degen int
	same  []byte
}

func (s *steer) Read(p []byte) (int, error) {
	s.r.Read(p)
	switch s.degen {
	case 1:
		clear(p)
	case 2:
		for i := range p {
			p[i] = 0xff
		}
	case 3:
		if s.n > 0 && s.r.Intn(3) == 0 {
			clear(p)
		}
	case 4:
		if s.same == nil {
			s.same = append([]byte(nil), p...)
		}
		copy(p, s.same)
	case 5:
		if s.n > 0 {
			clear(p)
		}
	}
	if len(p) == 16 {
		if s.n < len(s.sbits) && s.sbits[s.n] >= 0 {
			p[0] = p[0]&0x7f | byte(s.sbits[s.n])<<7
		}
		s.n++
	}
	return len(p), nil
}

var libCircuits = []string{
	vrt.Repo + "/pkg/math/add64.circ", vrt.Repo + "/pkg/math/sub64.circ", vrt.Repo + "/pkg/math/mul64.circ",
	vrt.Repo + "/pkg/math/div64.circ", vrt.Repo + "/pkg/crypto/aes/aes_128.circ",
	vrt.Repo + "/pkg/crypto/chacha20/chacha20block.mpclc", vrt.Repo + "/pkg/crypto/sha256/sha256.circ",
	vrt.Repo + "/pkg/crypto/aes/aes_256.circ",
}

// garbleEvalCheck garbles c with the given randomness and key, evaluates the
// flat assignments and judges C01's oracle. Returns false after a violation.
func garbleEvalCheck(cs *vrt.Case, tag string, c *circuit.Circuit, rnd *steer, key []byte, vecs []*big.Int, tuples bool) bool {
	ok, _ := garbleEvalKeep(cs, tag, c, rnd, key, vecs, tuples)
	return ok
}

// garbleEvalKeep is garbleEvalCheck that also hands back the garbling when it
// is kept (rnd.keep: not released), so that it can be evaluated again later.
func garbleEvalKeep(cs *vrt.Case, tag string, c *circuit.Circuit, rnd *steer, key []byte, vecs []*big.Int, tuples bool) (bool, *circuit.Garbled) {
	var g *circuit.Garbled
	var err error
	if pi := vrt.Guard(func() { g, err = c.Garble(rnd, key) }); pi != nil {
		cs.Violate("C01|garble-panic|"+pi.Frame, "Garble panicked: "+pi.Value, map[string]any{"tag": tag, "stack": pi.Stack})
		return false, nil
	}
	if err != nil {
		cs.Violate("C01|garble-error", "Garble failed on a well-formed circuit: "+err.Error(), map[string]any{"tag": tag})
		return false, nil
	}
	if !rnd.keep {
		defer g.Release()
		return evalGarbled(cs, tag, c, g, key, vecs, tuples), nil
	}
	return evalGarbled(cs, tag, c, g, key, vecs, tuples), g
}

// evalGarbled evaluates the flat assignments on a garbling and judges C01's oracle.
func evalGarbled(cs *vrt.Case, tag string, c *circuit.Circuit, g *circuit.Garbled, key []byte, vecs []*big.Int, tuples bool) bool {
	nin := c.Inputs.Size()
	nout := c.Outputs.Size()
	ok := true
	for off := 0; off < len(vecs) && ok; off += 64 {
		end := min(off+64, len(vecs))
		ref, rerr := refc.Eval64(c, refc.Slice(nin, vecs[off:end]))
		if rerr != nil {
			cs.Inconc("refc: " + rerr.Error())
			return false
		}
		for k := off; k < end && ok; k++ {
			v := vecs[k]
			wires := make([]ot.Label, c.NumWires)
			for i := 0; i < nin; i++ {
				if v.Bit(i) == 1 {
					wires[i] = g.Wires[i].L1
				} else {
					wires[i] = g.Wires[i].L0
				}
			}
			var eerr error
			if pi := vrt.Guard(func() { eerr = c.Eval(key, wires, g.Gates) }); pi != nil {
				cs.Violate("C01|eval-panic|"+pi.Frame, "Eval panicked: "+pi.Value, map[string]any{"tag": tag, "input": v.Text(16), "stack": pi.Stack})
				return false
			}
			if eerr != nil {
				cs.Violate("C01|eval-error", "Eval failed on honest garbling: "+eerr.Error(), map[string]any{"tag": tag, "input": v.Text(16)})
				return false
			}
			cs.Evals++
			for i := 0; i < nout; i++ {
				w := c.NumWires - nout + i
				want := ref[w]>>uint(k-off)&1 == 1
				lab := wires[w]
				is0, is1 := lab.Equal(g.Wires[w].L0), lab.Equal(g.Wires[w].L1)
				bit, berr := circuit.BitFromLabel(g.Wires[w], lab)
				switch {
				case !is0 && !is1:
					ok = false
					cs.Violate("C01|output-not-a-label|"+firstBadGate(c, g, wires, ref, k-off), "evaluated output label is neither of the wire's labels",
						map[string]any{"tag": tag, "input": v.Text(16), "output_wire": w, "first_bad_gate": firstBadGate(c, g, wires, ref, k-off), "circuit": dumpCircuit(c)})
				case is1 != want && !(is0 && is1):
					ok = false
					cs.Violate("C01|wrong-bit|"+firstBadGate(c, g, wires, ref, k-off), "evaluated output decodes to the wrong bit",
						map[string]any{"tag": tag, "input": v.Text(16), "output_wire": w, "want": want, "first_bad_gate": firstBadGate(c, g, wires, ref, k-off), "circuit": dumpCircuit(c)})
				case berr != nil || bit != want:
					ok = false
					cs.Violate("C01|BitFromLabel", fmt.Sprintf("BitFromLabel gives (%v,%v), expected %v", bit, berr, want),
						map[string]any{"tag": tag, "input": v.Text(16), "output_wire": w})
				}
				if !ok {
					break
				}
			}
			// localisation only: intermediate wires (not judged separately)
			if ok && tuples && k < off+4 {
				for gi := range c.Gates {
					gt := &c.Gates[gi]
					va := ref[gt.Input0] >> uint(k-off) & 1
					pa := b2i(g.Wires[gt.Input0].L0.S())
					var vb, pb uint64
					same := false
					if gt.Op != circuit.INV {
						vb = ref[gt.Input1] >> uint(k-off) & 1
						pb = uint64(b2i(g.Wires[gt.Input1].L0.S()))
						same = gt.Input0 == gt.Input1
					}
					cs.Seen("gate_tuples(op,pa,pb,va,vb,same)", fmt.Sprintf("%s,%d,%d,%d,%d,%v", gt.Op, pa, pb, va, vb, same))
				}
			}
		}
	}
	return ok
}

type keptGarbling struct {
	g   *circuit.Garbled
	key []byte
	rep int
}

func b2i(b bool) int {
	if b {
		return 1
	}
	return 0
}

// firstBadGate localises a witness: the first gate whose evaluated output
// label is not the label of the reference bit.
func firstBadGate(c *circuit.Circuit, g *circuit.Garbled, wires []ot.Label, ref []uint64, k int) string {
	for i, gt := range c.Gates {
		want := ref[gt.Output]>>uint(k)&1 == 1
		l := g.Wires[gt.Output].L0
		if want {
			l = g.Wires[gt.Output].L1
		}
		if !wires[gt.Output].Equal(l) {
			_ = i
			return gt.Op.String()
		}
	}
	return "none"
}

func dumpCircuit(c *circuit.Circuit) any {
	if len(c.Gates) > 40 {
		return fmt.Sprintf("%d gates, %d wires (too large to inline)", len(c.Gates), c.NumWires)
	}
	var gs []string
	for _, g := range c.Gates {
		gs = append(gs, g.String())
	}
	return map[string]any{"inputs": c.Inputs.String(), "outputs": c.Outputs.String(), "gates": gs}
}

func computeCheck(cs *vrt.Case, tag string, c *circuit.Circuit, vecs []*big.Int) {
	flat, err := refc.EvalFlat(c, vecs)
	if err != nil {
		cs.Inconc(err.Error())
		return
	}
	for k, v := range vecs {
		// per-argument values
		var args []*big.Int
		off := 0
		for _, a := range c.Inputs {
			members := circuit.IO{a}
			if len(a.Compound) > 0 {
				members = a.Compound
			}
			for _, m := range members {
				x := new(big.Int)
				for b := 0; b < int(m.Type.Bits); b++ {
					x.SetBit(x, b, v.Bit(off+b))
				}
				off += int(m.Type.Bits)
				args = append(args, x)
			}
		}
		var res []*big.Int
		var cerr error
		if pi := vrt.Guard(func() { res, cerr = c.Compute(args) }); pi != nil {
			cs.Violate("C01|compute-panic|"+pi.Frame, "Compute panicked: "+pi.Value, map[string]any{"tag": tag, "stack": pi.Stack})
			return
		}
		if cerr != nil {
			cs.Violate("C01|compute-error", "Compute failed: "+cerr.Error(), map[string]any{"tag": tag})
			return
		}
		want := refc.SplitOut(c.Outputs, flat[k])
		cs.Evals++
		if len(res) != len(want) {
			cs.Violate("C01|compute-arity", "Compute returned wrong number of outputs", map[string]any{"tag": tag})
			return
		}
		for i := range want {
			if res[i].Cmp(want[i]) != 0 {
				cs.Violate("C01|compute-wrong", fmt.Sprintf("Compute output %d = %s, truth-table evaluation gives %s", i, res[i].Text(16), want[i].Text(16)),
					map[string]any{"tag": tag, "input": v.Text(16), "circuit": dumpCircuit(c)})
				return
			}
		}
	}
}

// allOrSampled returns all assignments when nin ≤ lim bits, else n sampled.
func allOrSampled(r *vrt.Rng, nin, lim, n int) ([]*big.Int, bool) {
	var vecs []*big.Int
	if nin <= lim {
		for v := 0; v < 1<<uint(nin); v++ {
			vecs = append(vecs, big.NewInt(int64(v)))
		}
		return vecs, true
	}
	for i := 0; i < n; i++ {
		if i%4 == 0 {
			vecs = append(vecs, r.BoundaryBig(nin))
		} else {
			vecs = append(vecs, r.Big(nin))
		}
	}
	return vecs, false
}

func init() {
	const single = 1
	vrt.Register(&vrt.Prop{
		ID: "C01", Level: "exploration",
		Rule: "case 0: every single-gate circuit (5 ops) x forced permute bits (pa,pb) x all inputs x {distinct wires, same wire twice} x key sizes 16/24/32; " +
			"other cases: a PRNG-generated circuit (dag/chain/layers/fan-out, gate mixes incl. OR/INV/XNOR-only), garbled 1-3 times with steered or random permute bits and a 16/24/32-byte key (in half of the cases one key buffer refilled in place between the garblings), " +
			"evaluated on all assignments (<=8 input bits) or 64 sampled ones; plus parsed library circuits. Non-trivial = a non-free gate lies on a path to an output; distinct = hash of (circuit, randomness seed, key size).",
		Assumptions: []string{"refc (bit-sliced truth tables, harness code) is the specification of plain evaluation",
			"labels handed to Eval are chosen by the monitor directly from Garbled.Wires"},
		NumCases: func(t string) int {
			if t == "thorough" {
				return single + 4000 + len(libCircuits)
			}
			return single + 400 + 3
		},
		Run: runC01,
		Finalize: func(a *vrt.Agg) error {
			if n := len(a.Sets["gate_tuples(op,pa,pb,va,vb,same)"]); n < 60 {
				return fmt.Errorf("only %d distinct (op,pa,pb,va,vb,same) tuples observed", n)
			}
			return nil
		},
	})
}

// runC01: most cases run alone; some run as 2-3 concurrent sessions of the
// same case shape in one process (package-level state in the code under test).
func runC01(cs *vrt.Case) {
	if cs.Idx > 0 && cs.Idx%4 == 2 {
		cs.Twins(2+(cs.Idx/7)%2, func(sub *vrt.Case, _ *vrt.Rng) { runC01One(sub) })
		return
	}
	runC01One(cs)
}

func runC01One(cs *vrt.Case) {
	r := cs.Rng
	nrand := 400
	if cs.Thorough() {
		nrand = 4000
	}
	switch {
	case cs.Idx == 0:
		n := 0
		for _, op := range []circuit.Operation{circuit.XOR, circuit.XNOR, circuit.AND, circuit.OR, circuit.INV} {
			for same := 0; same < 2; same++ {
				if op == circuit.INV && same == 1 {
					continue
				}
				nin := 2
				if same == 1 || op == circuit.INV {
					nin = 1
				}
				c := &circuit.Circuit{NumGates: 1, NumWires: nin + 1,
					Inputs:  circuit.IO{{Type: uintT(nin)}},
					Outputs: circuit.IO{{Type: uintT(1)}},
					Gates:   []circuit.Gate{{Op: op, Input0: 0, Input1: circuit.Wire(nin - 1), Output: circuit.Wire(nin)}}}
				for pa := 0; pa < 2; pa++ {
					for pb := 0; pb < 2; pb++ {
						for _, kl := range []int{16, 24, 32} {
							for rep := 0; rep < 3; rep++ {
								vecs, _ := allOrSampled(r, nin, 8, 0)
								st := &steer{r: r.Fork(), sbits: []int{-1, pa, pb}}
								garbleEvalCheck(cs, fmt.Sprintf("single %s same=%d pa=%d pb=%d key=%d", op, same, pa, pb, kl), c, st, r.Bytes(kl), vecs, true)
								computeCheck(cs, "single "+op.String(), c, vecs)
								n++
								cs.Key("single", op.String(), fmt.Sprint(same, pa, pb, kl, rep))
							}
						}
					}
				}
			}
		}
		cs.SetSample(map[string]any{"kind": "single-gate exhaustive", "garblings": n})
	case cs.Idx <= nrand:
		maxG := []int{6, 30, 120, 400}[r.Intn(4)]
		sh := refc.RandShape(r, r.Range(1, 3), maxG)
		c := refc.Gen(r, sh)
		if cs.Idx%16 == 9 {
			// many input wires (around and beyond 1024, 2048, 4096), every one of
			// them folded into the outputs: acc = op(acc, in[i]), mostly XOR
			n := vrt.Pick(r, []int{1023, 1024, 1025, 1500, 2047, 2049, 4100})
			c = &circuit.Circuit{NumGates: n - 1, NumWires: 2*n - 1,
				Inputs:  circuit.IO{{Type: uintT(n / 2)}, {Type: uintT(n - n/2)}},
				Outputs: circuit.IO{{Type: uintT(8)}}}
			acc := circuit.Wire(0)
			for i := 1; i < n; i++ {
				op := circuit.XOR
				if r.Intn(5) == 0 {
					op = vrt.Pick(r, []circuit.Operation{circuit.AND, circuit.OR, circuit.XNOR})
				}
				c.Gates = append(c.Gates, circuit.Gate{Op: op, Input0: acc, Input1: circuit.Wire(i), Output: circuit.Wire(n + i - 1)})
				acc = circuit.Wire(n + i - 1)
			}
			sh = refc.Shape{Args: []int{n / 2, n - n/2}, Outs: []int{8}, Gates: n - 1}
			cs.Count("circuits_with_more_than_1000_input_wires", 1)
		}
		nin := c.Inputs.Size()
		vecs, exh := allOrSampled(r, nin, 8, 64)
		if nin > 1000 {
			ones := new(big.Int).Sub(new(big.Int).Lsh(big.NewInt(1), uint(nin)), big.NewInt(1))
			vecs = append(vecs, ones, new(big.Int), new(big.Int).Lsh(big.NewInt(1), uint(nin-1)), new(big.Int).Rsh(ones, 1))
		}
		nontriv := refc.Depends(c)
		reps := r.Range(1, 3)
		// half of the cases hand every garbling of the circuit the same key
		// buffer, refilled in place with a fresh key (a caller that keeps one
		// key array per connection)
		reuseKey := r.Bool()
		klFixed := vrt.Pick(r, []int{16, 24, 32})
		var keyBuf []byte
		var kept []keptGarbling
		if reuseKey && reps < 2 {
			reps = 2
		}
		for rep := 0; rep < reps; rep++ {
			kl := vrt.Pick(r, []int{16, 24, 32})
			if reuseKey {
				kl = klFixed
			}
			st := &steer{r: r.Fork(), keep: r.Intn(3) == 0}
			if cs.Idx%4 == 1 && rep == reps-1 {
				// a degenerate label source (all-zero labels, repeated labels):
				// "every randomness" includes the streams a broken or test
				// entropy source delivers
				st.degen = 1 + (cs.Idx/4)%5
				cs.Count("garblings_with_degenerate_label_source", 1)
			}
			if r.Bool() {
				for i := 0; i <= nin; i++ {
					st.sbits = append(st.sbits, r.Intn(2))
				}
			}
			seed := r.U64()
			key := vrt.NewRng(seed).Bytes(kl)
			if reuseKey {
				if keyBuf == nil {
					keyBuf = make([]byte, kl)
				}
				copy(keyBuf, key)
				key = keyBuf
				cs.Count("garblings_with_reused_key_buffer", 1)
			}
			if rep > 0 && r.Intn(3) == 0 {
				// a garbling that fails part-way between two good ones (the label
				// source dies after a PRNG number of bytes)
				fr := &failingReader{r: r.Fork(), left: r.Intn(16*(2*nin+3) + 8)}
				if fg, ferr := c.Garble(fr, r.Bytes(32)); ferr == nil && fg != nil {
					fg.Release()
				} else {
					cs.Count("failed_garblings_in_history", 1)
				}
			}
			okRep, keptG := garbleEvalKeep(cs, fmt.Sprintf("random circuit rep %d", rep), c, st, key, vecs, true)
			if !okRep {
				break
			}
			if keptG != nil {
				kept = append(kept, keptGarbling{keptG, append([]byte(nil), key...), rep})
			}
			if nontriv {
				cs.Key("rand", fmt.Sprint(vrt.HashBytes([]byte(fmt.Sprint(c.Gates))), seed, kl))
			}
		}
		// garblings that were not released stay valid: evaluate them again
		// after all later garblings (and failed garblings) of the circuit
		for _, kg := range kept {
			sub := vecs
			if len(sub) > 8 {
				sub = sub[:8]
			}
			cs.Count("kept_garblings_evaluated_again_at_the_end", 1)
			if !evalGarbled(cs, fmt.Sprintf("random circuit rep %d, evaluated again after %d later garblings", kg.rep, reps-1-kg.rep), c, kg.g, kg.key, sub, false) {
				break
			}
		}
		computeCheck(cs, "random circuit", c, vecs)
		cs.Count("random_circuits", 1)
		if exh {
			cs.Count("circuits_with_exhaustive_inputs", 1)
		}
		cs.SetSample(map[string]any{"kind": "random", "shape": sh, "gates": len(c.Gates), "inputs": nin, "vectors": len(vecs), "garblings": reps, "nontrivial": nontriv})
	default:
		file := libCircuits[cs.Idx-nrand-1]
		c, err := circuit.Parse(file)
		if err != nil {
			cs.Violate("C01|lib-parse", "shipped circuit does not parse: "+err.Error(), map[string]any{"file": file})
			return
		}
		n := 8
		if len(c.Gates) > 200000 {
			n = 3
		}
		vecs, _ := allOrSampled(r, c.Inputs.Size(), 0, n)
		garbleEvalCheck(cs, file, c, &steer{r: r.Fork()}, r.Bytes(vrt.Pick(r, []int{16, 24, 32})), vecs, false)
		computeCheck(cs, file, c, vecs)
		cs.Key("lib", file)
		cs.Count("library_circuits", 1)
		cs.SetSample(map[string]any{"kind": "library", "file": file, "gates": len(c.Gates), "vectors": len(vecs)})
	}
}
