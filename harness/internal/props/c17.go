package props

import (
	"fmt"
	"math/big"
	"os"
	"os/exec"
	"path/filepath"
	"runtime"
	"sort"
	"strings"
	"sync"
	"sync/atomic"
	"time"
	"unsafe"

	"github.com/markkurossi/mpc/circuit"
	"github.com/markkurossi/mpc/ot"

	"verifharness/internal/refc"
	"verifharness/internal/vrt"
)

type c17Live struct {
	g      *circuit.Garbled // nil for an orphan: the handle was dropped, the slices are kept
	gw     []ot.Wire        // the garbling's own Wires slice
	gg     [][]ot.Label     // the garbling's own Gates slice
	orphan bool
	key    []byte
	wires  []ot.Wire    // snapshot right after Garble
	gates  [][]ot.Label // snapshot right after Garble
	wptr   uintptr
	owner  int
}

func snapGates(g [][]ot.Label) [][]ot.Label {
	out := make([][]ot.Label, len(g))
	for i, row := range g {
		out[i] = append([]ot.Label(nil), row...)
	}
	return out
}

func sameGarbling(l *c17Live) string {
	if len(l.gw) != len(l.wires) || len(l.gg) != len(l.gates) {
		return "lengths changed"
	}
	for i := range l.wires {
		if l.gw[i] != l.wires[i] {
			return fmt.Sprintf("wire %d changed", i)
		}
	}
	for i := range l.gates {
		if len(l.gg[i]) != len(l.gates[i]) {
			return fmt.Sprintf("table %d resized", i)
		}
		for j := range l.gates[i] {
			if l.gg[i][j] != l.gates[i][j] {
				return fmt.Sprintf("table %d row %d changed", i, j)
			}
		}
	}
	return ""
}

func init() {
	vrt.Register(&vrt.Prop{
		ID: "C17", Level: "exploration",
		Rule: "case = a FRESH circuit value (generated, 3-400 gates, or parsed AES-128 in thorough) shared by G in {2,4,16,64} goroutines released by a barrier (so lazy pool creation is raced); each goroutine runs 30-300 operations drawn from {Garble, Garble on a label source that dies after a PRNG number of bytes, Eval on its own garbling, Compute, Release, double Release, hold-and-recheck, keep the slices of a garbling but drop its handle and never release it (a few garbage collections are forced while such orphans are alive)} with its own deterministic label stream. Runs under the Go race detector. " +
			"Every second case runs without any synchronisation of the monitor between the goroutines (a monitor mutex orders all operations for the race detector and hides races across operations): pointers, live intervals and operation end times are logged per goroutine from the monotonic clock and judged after the join. Every sixth case is a release storm in a child process of the non-race build on all cores: a circuit of 20000-200000 wires whose garbled rows come first, half of the goroutines garble-checksum-release in bursts of 2-4, the other half garble, evaluate and never release (so their Garble takes what other Ps just put back) - the race detector does not instrument the clear() builtin, so a write into scratch that was already handed back shows only as another goroutine's live garbling changing. " +
			"Oracles: zero race reports with circuit frames; Compute equals the reference evaluation; each Eval on the goroutine's own garbling decodes to the reference; a deep snapshot of a live garbling taken after Garble equals the garbling right before Release (nobody else wrote into its scratch); no two live garblings share a backing array. Distinct = hash of the completion order of operations (distinct interleavings observed).",
		Assumptions: []string{"race reports vary from run to run: the script is repeated on fresh circuits"},
		NumCases: func(t string) int {
			if t == "thorough" {
				return 400
			}
			return 48
		},
		Race:        func(string) bool { return true },
		CaseTimeout: 6 * time.Minute,
		MaxWorkers:  8,
		Run:         runC17,
		Finalize: func(a *vrt.Agg) error {
			if a.Counters["garblings"] == 0 || a.Counters["reused_scratch"] == 0 {
				return fmt.Errorf("garblings=%d, reuse of released scratch observed %d times", a.Counters["garblings"], a.Counters["reused_scratch"])
			}
			return nil
		},
	})
}

// c17Storm runs the release storm (c17storm.go) in a child process of the
// non-race build on all cores.
func c17Storm(cs *vrt.Case) {
	r := cs.Rng
	self, err := os.Executable()
	if err != nil {
		cs.Inconc(err.Error())
		return
	}
	bin := filepath.Join(filepath.Dir(self), "vcheck")
	gates := vrt.Pick(r, []int{20000, 60000})
	if cs.Thorough() {
		gates = vrt.Pick(r, []int{20000, 60000, 200000})
	}
	G := vrt.Pick(r, []int{8, 16, 32})
	seed := r.U64()
	desc := map[string]any{"kind": "release storm in a non-race child process", "seed": seed, "gates": gates, "goroutines": G}
	cs.SetSample(desc)
	cmd := exec.Command(bin, "aux", "c17storm", fmt.Sprint(seed), fmt.Sprint(gates), fmt.Sprint(G), "100")
	cmd.Env = append(os.Environ(), "GOMAXPROCS="+fmt.Sprint(runtime.NumCPU()))
	out, err := cmd.CombinedOutput()
	line := strings.TrimSpace(string(out))
	if i := strings.LastIndex(line, "STORM "); i >= 0 {
		line = line[i:]
	}
	switch {
	case strings.HasPrefix(line, "STORM ok"):
		var g, b, e int64
		fmt.Sscanf(line, "STORM ok garblings=%d bursts=%d evals=%d", &g, &b, &e)
		cs.Count("storm_garblings", g)
		cs.Count("storm_release_bursts", b)
		cs.Count("storm_evals", e)
		cs.Count("storm_runs", 1)
		cs.Evals += g + e
		cs.Keys = append(cs.Keys, vrt.HashBytes([]byte(fmt.Sprint(seed, gates, G))))
	case strings.HasPrefix(line, "STORM violation: "):
		what := strings.TrimPrefix(line, "STORM violation: ")
		cs.Violate("C17|storm|"+firstWords(what, 5), "release storm: "+what, map[string]any{"case": desc, "replay": fmt.Sprintf("bin/vcheck aux c17storm %d %d %d 100", seed, gates, G)})
	case err != nil && strings.Contains(string(out), "github.com/markkurossi/mpc/circuit"):
		cs.Violate("C17|storm|crash", "release storm crashed inside the circuit package: "+trunc(firstLineOf(string(out)), 200), map[string]any{"case": desc, "output": trunc(string(out), 4000)})
	default:
		cs.Inconc(fmt.Sprintf("storm child: %v %s", err, trunc(line, 200)))
	}
}

func firstLineOf(s string) string {
	for _, l := range strings.Split(s, "\n") {
		if strings.HasPrefix(l, "panic:") || strings.HasPrefix(l, "fatal error:") {
			return l
		}
	}
	if i := strings.IndexByte(s, '\n'); i > 0 {
		return s[:i]
	}
	return s
}

func runC17(cs *vrt.Case) {
	if cs.Idx%6 == 5 && !(cs.Thorough() && cs.Idx%40 == 39) {
		c17Storm(cs)
		return
	}
	r := cs.Rng
	var c *circuit.Circuit
	what := "generated"
	if cs.Thorough() && cs.Idx%40 == 39 {
		var err error
		c, err = circuit.Parse(vrt.Repo + "/pkg/crypto/aes/aes_128.circ")
		if err != nil {
			cs.Inconc(err.Error())
			return
		}
		what = "aes_128"
	} else {
		sh := refc.RandShape(r, 2, vrt.Pick(r, []int{3, 20, 100, 400}))
		c = refc.Gen(r, sh)
	}
	nin := c.Inputs.Size()
	nout := c.Outputs.Size()
	G := []int{2, 4, 16, 64}[cs.Idx%4]
	nops := r.Range(30, 300)
	if what == "aes_128" {
		G, nops = 8, 12
	}
	// reference values for a few inputs
	var inputs []*big.Int
	for i := 0; i < 6; i++ {
		inputs = append(inputs, r.Big(nin))
	}
	want, err := refc.EvalFlat(c, inputs)
	if err != nil {
		cs.Inconc(err.Error())
		return
	}
	desc := map[string]any{"circuit": what, "gates": len(c.Gates), "goroutines": G, "ops_per_goroutine": nops}
	cs.SetSample(desc)

	// Half of the cases run WITHOUT any synchronisation between the goroutines
	// after the barrier: a mutex (or an atomic) of the monitor that every
	// goroutine passes after each operation orders all operations of different
	// goroutines for the race detector and hides every race whose two accesses
	// lie in different operations (a wipe after the scratch went back to the
	// pool, say). In those cases each goroutine logs (pointer, live interval)
	// and operation end times from the monotonic clock locally, and the
	// sharing oracle and the completion order are evaluated after the join.
	unsync := cs.Idx%2 == 1
	desc["monitor"] = map[bool]string{false: "online under one mutex", true: "goroutine-local logs, no synchronisation between goroutines"}[unsync]
	base := time.Now()
	type ival struct {
		ptr    uintptr
		t1, t2 time.Duration
		owner  int
	}
	allIvals := make([][]ival, G)
	allEnds := make([][]time.Duration, G)
	var mu sync.Mutex
	livePtr := map[uintptr]int{} // backing array of Wires -> owner
	everPtr := map[uintptr]bool{}
	var order []byte
	var problems []string
	var counters = map[string]int64{}
	report := func(s string) {
		mu.Lock()
		if len(problems) < 5 {
			problems = append(problems, s)
		}
		mu.Unlock()
	}
	start := make(chan struct{})
	var gcs atomic.Int32
	var wg sync.WaitGroup
	seeds := make([]uint64, G)
	for i := range seeds {
		seeds[i] = r.U64()
	}
	for gi := 0; gi < G; gi++ {
		wg.Add(1)
		go func(id int) {
			defer wg.Done()
			rr := vrt.NewRng(seeds[id])
			var mine []*c17Live
			var keyBuf [32]byte
			orphans := 0
			reuseKeyBuf := id%2 == 1
			local := map[string]int64{}
			var ivals []ival // unsync: one per garbling of this goroutine
			var ends []time.Duration
			ivalOf := map[*c17Live]int{}
			defer func() {
				// also on the early return after a reported problem
				now := time.Since(base)
				for i := range ivals {
					if ivals[i].t2 == 0 {
						ivals[i].t2 = now
					}
				}
				allIvals[id], allEnds[id] = ivals, ends
				mu.Lock()
				for _, l := range mine {
					// the handles die with this goroutine: their memory may be
					// collected and its address reused by a later allocation
					delete(livePtr, l.wptr)
				}
				for k, v := range local {
					counters[k] += v
				}
				mu.Unlock()
				runtime.KeepAlive(mine)
			}()
			<-start
			for op := 0; op < nops; op++ {
				switch k := rr.Intn(10); {
				case k < 3 || len(mine) == 0: // Garble
					if rr.Intn(8) == 0 {
						// a garbling that fails part-way: the label source gives out
						// after a PRNG number of bytes. Whatever the failed call had
						// taken from the pool must be returned exactly once.
						fr := &failingReader{r: rr.Fork(), left: rr.Intn(16*(2*nin+3) + 8)}
						if g, err := c.Garble(fr, rr.Bytes(32)); err == nil {
							if g != nil {
								g.Release()
							}
						} else {
							local["garblings_failed_on_a_dying_label_source"]++
						}
					}
					key := rr.Bytes(vrt.Pick(rr, []int{16, 24, 32}))
					gkey := key
					if reuseKeyBuf {
						// the caller keeps one key buffer and refills it in place
						// for every garbling (the garbling must not depend on the
						// buffer after Garble returned)
						copy(keyBuf[:], key)
						gkey = keyBuf[:len(key)]
						local["garblings_with_refilled_key_buffer"]++
					}
					g, err := c.Garble(rr.Fork(), gkey)
					if err != nil {
						report("Garble failed: " + err.Error())
						return
					}
					l := &c17Live{g: g, gw: g.Wires, gg: g.Gates, key: key, wires: append([]ot.Wire(nil), g.Wires...), gates: snapGates(g.Gates), owner: id}
					if orphans < 3 && len(c.Gates) < 5000 && rr.Intn(5) == 0 {
						// keep the label and table slices, drop the handle and never
						// release it (as sha2pc.GarblerRound3 does): the garbling has
						// to stay valid for as long as its slices are referenced
						l.g, l.orphan = nil, true
						orphans++
						local["garblings_kept_without_their_handle"]++
					}
					g = nil
					if len(l.gw) > 0 {
						l.wptr = uintptr(unsafe.Pointer(&l.gw[0]))
					}
					if unsync {
						ivalOf[l] = len(ivals)
						ivals = append(ivals, ival{ptr: l.wptr, t1: time.Since(base), owner: id})
					} else {
						mu.Lock()
						if o, dup := livePtr[l.wptr]; dup && l.wptr != 0 {
							problems = append(problems, fmt.Sprintf("two live garblings share one backing array (goroutines %d and %d)", o, id))
						}
						livePtr[l.wptr] = id
						if everPtr[l.wptr] {
							local["reused_scratch"]++
						}
						everPtr[l.wptr] = true
						mu.Unlock()
					}
					mine = append(mine, l)
					local["garblings"]++
				case k < 6: // Eval own
					l := mine[rr.Intn(len(mine))]
					iv := rr.Intn(len(inputs))
					wires := make([]ot.Label, c.NumWires)
					for i := 0; i < nin; i++ {
						if inputs[iv].Bit(i) == 1 {
							wires[i] = l.gw[i].L1
						} else {
							wires[i] = l.gw[i].L0
						}
					}
					if err := c.Eval(l.key, wires, l.gg); err != nil {
						report("Eval on the goroutine's own garbling failed: " + err.Error())
						return
					}
					for i := 0; i < nout; i++ {
						w := c.NumWires - nout + i
						bit, err := circuit.BitFromLabel(l.gw[w], wires[w])
						if err != nil || bit != (want[iv].Bit(i) == 1) {
							report(fmt.Sprintf("concurrent Eval decoded output %d wrongly (%v, %v)", i, bit, err))
							return
						}
					}
					local["evals"]++
				case k == 6: // Compute
					iv := rr.Intn(len(inputs))
					var args []*big.Int
					off := 0
					for _, a := range c.Inputs {
						x := new(big.Int)
						for b := 0; b < int(a.Type.Bits); b++ {
							x.SetBit(x, b, inputs[iv].Bit(off+b))
						}
						off += int(a.Type.Bits)
						args = append(args, x)
					}
					res, err := c.Compute(args)
					if err != nil {
						report("Compute failed: " + err.Error())
						return
					}
					got := new(big.Int)
					o := 0
					for i, a := range c.Outputs {
						got.Or(got, new(big.Int).Lsh(res[i], uint(o)))
						o += int(a.Type.Bits)
					}
					if got.Cmp(want[iv]) != 0 {
						report("concurrent Compute returned a wrong value")
						return
					}
					local["computes"]++
				case k == 7: // hold-and-recheck
					l := mine[rr.Intn(len(mine))]
					if l.orphan && ((unsync && id < 4 && local["collections_with_orphans_alive"] == 0) || (!unsync && gcs.Add(1) <= 4)) {
						runtime.GC() // a dropped handle may be collected; the slices it handed out are still ours
						local["collections_with_orphans_alive"]++
					}
					if d := sameGarbling(l); d != "" {
						report("a live garbling changed while its owner held it: " + d)
						return
					}
					local["rechecks"]++
				default: // Release (sometimes twice)
					i := rr.Intn(len(mine))
					l := mine[i]
					if l.orphan {
						continue // never released
					}
					if d := sameGarbling(l); d != "" {
						report("a live garbling changed before its Release: " + d)
						return
					}
					if unsync {
						ivals[ivalOf[l]].t2 = time.Since(base)
					} else {
						mu.Lock()
						delete(livePtr, l.wptr)
						mu.Unlock()
					}
					l.g.Release()
					if rr.Intn(3) == 0 {
						l.g.Release() // idempotent
						local["double_releases"]++
					}
					mine = append(mine[:i], mine[i+1:]...)
					local["releases"]++
				}
				if unsync {
					ends = append(ends, time.Since(base))
				} else {
					mu.Lock()
					order = append(order, byte(id))
					mu.Unlock()
				}
			}
			for _, l := range mine {
				if d := sameGarbling(l); d != "" {
					report("a live garbling changed while held to the end: " + d)
				}
			}
		}(gi)
	}
	close(start)
	wg.Wait()
	if unsync {
		// the sharing oracle over the logged live intervals: [after Garble
		// returned, before Release was called] is an inner bound of a
		// garbling's life, so two overlapping intervals on one backing array
		// were two live garblings
		byPtr := map[uintptr][]ival{}
		for _, iv := range allIvals {
			for _, v := range iv {
				if v.ptr != 0 {
					byPtr[v.ptr] = append(byPtr[v.ptr], v)
				}
			}
		}
		for _, list := range byPtr {
			sort.Slice(list, func(i, j int) bool { return list[i].t1 < list[j].t1 })
			if len(list) > 1 {
				counters["reused_scratch"] += int64(len(list) - 1)
			}
			for i := 1; i < len(list); i++ {
				if list[i].t1 < list[i-1].t2 {
					problems = append(problems, fmt.Sprintf("two live garblings share one backing array (goroutines %d and %d)", list[i-1].owner, list[i].owner))
					break
				}
			}
		}
		type end struct {
			t  time.Duration
			id int
		}
		var all []end
		for id, es := range allEnds {
			for _, t := range es {
				all = append(all, end{t, id})
			}
		}
		sort.Slice(all, func(i, j int) bool { return all[i].t < all[j].t })
		for _, e := range all {
			order = append(order, byte(e.id))
		}
		cs.Count("cases_without_monitor_synchronisation", 1)
	}
	for k, v := range counters {
		cs.Count(k, v)
		cs.Evals += v
	}
	for _, p := range problems {
		cs.Violate("C17|"+firstWords(p, 5), p, map[string]any{"case": desc})
	}
	cs.Keys = append(cs.Keys, vrt.HashBytes(order))
}

// failingReader yields left PRNG bytes and then fails.
type failingReader struct {
	r    *vrt.Rng
	left int
}

func (f *failingReader) Read(p []byte) (int, error) {
	if f.left <= 0 {
		return 0, fmt.Errorf("label source exhausted")
	}
	n := min(len(p), f.left)
	f.r.Read(p[:n])
	f.left -= n
	if n < len(p) {
		return n, fmt.Errorf("label source exhausted")
	}
	return n, nil
}
