package props

import (
	"bytes"
	"context"
	"fmt"
	"os"
	"os/exec"
	"path/filepath"
	"regexp"
	"strings"
	"time"

	"verifharness/internal/vrt"
)

// The repository's own command line tool as two OS processes: an evaluator
// that stays up and serves a sequence of garbler sessions. The program has
// unsized arguments, so both processes compile it themselves from the
// exchanged input sizes (apps/garbled loadCircuit); the evaluator keeps its
// circuit between sessions and must hold the same circuit as each garbler.

type c08CLIProg struct {
	src  string
	want func(g, e []byte) []string
}

var c08CLIProgs = []c08CLIProg{
	{`package main

func main(g []byte, e []byte) (uint32, int32) {
	var s uint32
	for i := 0; i < len(g); i++ {
		s = s*31 + uint32(g[i])
	}
	for i := 0; i < len(e); i++ {
		s = s*17 + uint32(e[i])
	}
	return s, int32(len(g)*256 + len(e))
}
`, func(g, e []byte) []string {
		var s uint32
		for _, b := range g {
			s = s*31 + uint32(b)
		}
		for _, b := range e {
			s = s*17 + uint32(b)
		}
		return []string{fmt.Sprint(s), fmt.Sprint(len(g)*256 + len(e))}
	}},
	{`package main

func main(g []byte, e []byte) (uint16, uint16) {
	var x uint16
	var y uint16
	for i := 0; i < len(g); i++ {
		x = x ^ (uint16(g[i]) << uint16(i%8))
		y = y + uint16(g[i])
	}
	for i := 0; i < len(e); i++ {
		x = x + uint16(e[i])
		y = y ^ (uint16(e[i]) << uint16(i%8))
	}
	return x, y
}
`, func(g, e []byte) []string {
		var x, y uint16
		for i, b := range g {
			x ^= uint16(b) << uint(i%8)
			y += uint16(b)
		}
		for i, b := range e {
			x += uint16(b)
			y ^= uint16(b) << uint(i%8)
		}
		return []string{fmt.Sprint(x), fmt.Sprint(y)}
	}},
}

var c08ResultRE = regexp.MustCompile(`(?m)^Result\[(\d+)\]: (\S+)`)

func c08Results(out string) []string {
	var r []string
	for _, m := range c08ResultRE.FindAllStringSubmatch(out, -1) {
		r = append(r, m[2])
	}
	return r
}

func c08CLI(cs *vrt.Case, r *vrt.Rng) {
	bin := filepath.Join(vrt.Root, "bin", "garbled")
	if _, err := os.Stat(bin); err != nil {
		cs.Inconc("bin/garbled was not built: " + err.Error())
		return
	}
	prog := c08CLIProgs[r.Intn(len(c08CLIProgs))]
	dir, err := os.MkdirTemp("", "c08cli-")
	if err != nil {
		cs.Inconc(err.Error())
		return
	}
	defer os.RemoveAll(dir)
	file := filepath.Join(dir, "p.mpcl")
	os.WriteFile(file, []byte(prog.src), 0o600)
	ports := freePorts(r, 1)
	if len(ports) == 0 {
		cs.Inconc("no free port")
		return
	}
	port := fmt.Sprintf("127.0.0.1:%d", ports[0])
	eIn := r.Bytes(r.Range(1, 4))
	// the garbler's sizes: a PRNG walk over 1..5 bytes that repeats sizes,
	// and visits the evaluator's own size right after a different one
	var sizes []int
	for n := r.Range(4, 7); len(sizes) < n; {
		switch r.Intn(4) {
		case 0:
			if len(sizes) > 0 {
				sizes = append(sizes, sizes[len(sizes)-1])
				continue
			}
		case 1:
			sizes = append(sizes, len(eIn))
			continue
		}
		sizes = append(sizes, r.Range(1, 5))
	}
	desc := map[string]any{"kind": "cli sessions", "program": prog.src, "evaluator_input_bytes": len(eIn), "garbler_input_bytes": sizes}
	cs.SetSample(desc)
	env := append(os.Environ(), "MPCLDIR="+vrt.Repo)
	ctx, cancel := context.WithTimeout(context.Background(), 3*time.Minute)
	defer cancel()
	ev := exec.CommandContext(ctx, bin, "-e", "-i", fmt.Sprintf("0x%x", eIn), "-port", port, file)
	ev.Env = env
	var evOut bytes.Buffer
	ev.Stdout, ev.Stderr = &evOut, &evOut
	if err := ev.Start(); err != nil {
		cs.Inconc("evaluator process: " + err.Error())
		return
	}
	evDone := make(chan error, 1)
	go func() { evDone <- ev.Wait() }()
	defer func() {
		if ev.Process != nil {
			ev.Process.Kill()
		}
	}()
	// wait for the listener (connect probes would be taken for sessions)
	for i := 0; i < 200 && !strings.Contains(evOut.String(), "Listening"); i++ {
		time.Sleep(10 * time.Millisecond)
	}
	for si, n := range sizes {
		gIn := r.Bytes(n)
		want := prog.want(gIn, eIn)
		g := exec.CommandContext(ctx, bin, "-i", fmt.Sprintf("0x%x", gIn), "-port", port, file)
		g.Env = env
		out, err := g.CombinedOutput()
		cs.Evals++
		d := map[string]any{"case": desc, "session": si, "garbler_input": fmt.Sprintf("%x", gIn), "evaluator_input": fmt.Sprintf("%x", eIn), "garbler_output": trunc(string(out), 1500), "evaluator_output": trunc(evOut.String(), 3000)}
		if ctx.Err() != nil {
			cs.Inconc("cli sessions exceeded the 3 minute watchdog")
			return
		}
		if err != nil {
			time.Sleep(100 * time.Millisecond)
			d["evaluator_output"] = trunc(evOut.String(), 3000)
			cs.Violate("C08|cli|session-failed", fmt.Sprintf("session %d (garbler input %d bytes after %v, evaluator input %d bytes): the garbler process failed: %v: %s", si, n, sizes[:si], len(eIn), err, lastLine(strings.TrimSpace(string(out)))), d)
			return
		}
		if got := c08Results(string(out)); fmt.Sprint(got) != fmt.Sprint(want) {
			cs.Violate("C08|cli|wrong-result", fmt.Sprintf("session %d (garbler input %d bytes after %v): garbler printed %v, the program's value is %v", si, n, sizes[:si], got, want), d)
			return
		}
		// the evaluator prints the same results for this session
		var evGot []string
		for i := 0; i < 200; i++ {
			evGot = c08Results(evOut.String())
			if len(evGot) >= (si+1)*len(want) {
				break
			}
			select {
			case e := <-evDone:
				d["evaluator_output"] = trunc(evOut.String(), 3000)
				cs.Violate("C08|cli|evaluator-exited", fmt.Sprintf("the evaluator process ended during session %d: %v", si, e), d)
				return
			case <-time.After(10 * time.Millisecond):
			}
		}
		if len(evGot) < (si+1)*len(want) || fmt.Sprint(evGot[si*len(want):(si+1)*len(want)]) != fmt.Sprint(want) {
			d["evaluator_output"] = trunc(evOut.String(), 3000)
			cs.Violate("C08|cli|evaluator-result", fmt.Sprintf("session %d: evaluator printed %v, expected %v at position %d", si, evGot, want, si*len(want)), d)
			return
		}
	}
	cs.Key("cli", fmt.Sprint(vrt.Hash64(prog.src)), fmt.Sprint(len(eIn), sizes))
	cs.Count("cli_session_sequences", 1)
	cs.Count("cli_sessions", int64(len(sizes)))
}
