package props

import (
	"fmt"
	"math/big"
	"sync"
	"time"

	"github.com/markkurossi/mpc/bmr"
	"github.com/markkurossi/mpc/ot"
	"github.com/markkurossi/mpc/vole"

	"verifharness/internal/otx"
	"verifharness/internal/vrt"
)

var voleLens = []int{1, 2, 7, 8, 9, 63, 64, 65, 511, 512, 513, 1000, 1023, 1025, 2000}

func voleModuli() []*big.Int {
	p256, _ := new(big.Int).SetString("ffffffff00000001000000000000000000000000ffffffffffffffffffffffff", 16)
	p25519 := new(big.Int).Sub(new(big.Int).Lsh(big.NewInt(1), 255), big.NewInt(19))
	p256189 := new(big.Int).Sub(new(big.Int).Lsh(big.NewInt(1), 256), big.NewInt(189))
	m127 := new(big.Int).Sub(new(big.Int).Lsh(big.NewInt(1), 127), big.NewInt(1))
	// primes around the machine word sizes: 2^64-59, 2^64+13, 2^63-25, 2^61-1, 2^32-5, 2^31-1, 2^128-159
	w := func(sh uint, d int64) *big.Int {
		return new(big.Int).Add(new(big.Int).Lsh(big.NewInt(1), sh), big.NewInt(d))
	}
	return []*big.Int{p256, p25519, p256189, m127, big.NewInt(65537), big.NewInt(251), big.NewInt(5), big.NewInt(3), big.NewInt(2),
		w(64, -59), w(64, 13), w(63, -25), w(61, -1), w(32, -5), w(31, -1), w(128, -159)}
}

func fieldElem(r *vrt.Rng, p *big.Int, allowBig bool) *big.Int {
	switch r.Intn(8) {
	case 0:
		return new(big.Int)
	case 1:
		return big.NewInt(1)
	case 2:
		return new(big.Int).Sub(p, big.NewInt(1))
	case 3:
		if allowBig {
			// a value >= p that still fits 256 bits: the callee reduces it
			v := r.Big(256)
			return v
		}
	}
	v := r.Big(p.BitLen() + 8)
	return v.Mod(v, p)
}

func init() {
	vrt.Register(&vrt.Prop{
		ID: "C20", Level: "exploration",
		Rule: "VOLE: case = (vector length from the boundary list or PRNG, modulus from {P-256 prime, 2^255-19, 2^256-189, 2^128-159, 2^127-1, 2^64+13, 2^64-59, 2^63-25, 2^61-1, 2^32-5, 2^31-1, 65537, 251, 5, 3, 2}, base OT in {CO, ideal}, transport in {p2p.Pipe, p2p.Conn over fragmenting tap}, 1-3 Mul calls per instance); oracle (u_i - r_i) mod p == x_i*y_i mod p for every i. " +
			"bmr.Fx: all (a,b) x repetitions; bmr.Fxk: s in {0, all-ones, uniform, one non-zero byte, one bit, zero prefix, zero suffix} x b; OT in {CO, COT}; 1-3 sessions of one process run concurrently, each on its own OT instance and connection, senders pausing at PRNG-chosen operations; oracle r xor x_b == a*b resp. b*s. Distinct = (kind, length, modulus, operands hash).",
		NumCases: func(t string) int {
			if t == "thorough" {
				return 1200
			}
			return 160
		},
		Run: runC20,
	})
}

// runC20: every fourth vector-OLE case runs as two concurrent sessions in one
// process (the Fx/Fxk cases have their own concurrent sessions).
func runC20(cs *vrt.Case) {
	if cs.Idx%4 == 1 {
		cs.Twins(2, func(sub *vrt.Case, _ *vrt.Rng) { runC20One(sub) })
		return
	}
	runC20One(cs)
}

func runC20One(cs *vrt.Case) {
	r := cs.Rng
	if cs.Idx%4 == 3 {
		if cs.Idx%8 == 7 {
			c20FxFaulty(cs, r)
			return
		}
		c20Fx(cs, r)
		return
	}
	mods := voleModuli()
	p := mods[(cs.Idx/4)%len(mods)]
	useCO := r.Intn(3) == 0
	maxLen := 2000
	if !cs.Thorough() {
		maxLen = 1100
	}
	ncalls := r.Range(1, 3)
	var xs, ys [][]*big.Int
	var lens []int
	for c := 0; c < ncalls; c++ {
		m := voleLens[(cs.Idx/4+c)%len(voleLens)]
		if r.Intn(3) == 0 {
			m = 1 + r.Intn(maxLen)
		}
		if m > maxLen {
			m = maxLen
		}
		lens = append(lens, m)
		x := make([]*big.Int, m)
		y := make([]*big.Int, m)
		for i := range x {
			x[i] = fieldElem(r, p, true)
			y[i] = fieldElem(r, p, true)
		}
		xs, ys = append(xs, x), append(ys, y)
	}
	kind := 2 + r.Intn(2)
	d := newDuplex(r, kind, false)
	var bs, br ot.OT
	if useCO {
		bs, br = ot.NewCO(r.Fork()), ot.NewCO(r.Fork())
	} else {
		bs, br = otx.NewIdealPair()
	}
	rs := make([][]*big.Int, ncalls)
	us := make([][]*big.Int, ncalls)
	ra, rb := runPair(d, func() error {
		s, err := vole.NewSender(bs, d.connA, r.Fork())
		if err != nil {
			return err
		}
		for c := range xs {
			if rs[c], err = s.Mul(xs[c], p); err != nil {
				return err
			}
		}
		return nil
	}, func() error {
		rc, err := vole.NewReceiver(br, d.connB, r.Fork())
		if err != nil {
			return err
		}
		for c := range ys {
			if us[c], err = rc.Mul(ys[c], p); err != nil {
				return err
			}
		}
		return nil
	})
	desc := map[string]any{"kind": "vole", "lens": lens, "modulus": p.Text(16), "baseOT": map[bool]string{true: "CO", false: "ideal"}[useCO], "transport": kind}
	cs.SetSample(desc)
	if pi := firstPanic(ra, rb); pi != nil {
		if pi.InMPC {
			cs.Violate("C20|panic|"+pi.Frame, "VOLE panicked: "+pi.Value, map[string]any{"case": desc, "stack": pi.Stack})
		} else {
			cs.Inconc("harness panic: " + pi.Value + "\n" + pi.Stack)
		}
		return
	}
	if ra.err != nil || rb.err != nil {
		cs.Violate("C20|vole-error", fmt.Sprintf("honest VOLE failed: sender=%v receiver=%v", ra.err, rb.err), map[string]any{"case": desc})
		return
	}
	for c := range xs {
		if len(rs[c]) != lens[c] || len(us[c]) != lens[c] {
			cs.Violate("C20|vole-length", "VOLE returned vectors of the wrong length", map[string]any{"case": desc})
			return
		}
		for i := range xs[c] {
			cs.Evals++
			lhs := new(big.Int).Sub(us[c][i], rs[c][i])
			lhs.Mod(lhs, p)
			rhs := new(big.Int).Mul(xs[c][i], ys[c][i])
			rhs.Mod(rhs, p)
			if lhs.Cmp(rhs) != 0 {
				cs.Violate("C20|vole-product", fmt.Sprintf("VOLE: u-r != x*y mod p at position %d of %d (call %d)", i, lens[c], c),
					map[string]any{"case": desc, "x": xs[c][i].Text(16), "y": ys[c][i].Text(16), "u": us[c][i].Text(16), "r": rs[c][i].Text(16)})
				return
			}
			if us[c][i].Sign() < 0 || us[c][i].Cmp(p) >= 0 || rs[c][i].Sign() < 0 || rs[c][i].Cmp(p) >= 0 {
				cs.Violate("C20|vole-range", "VOLE share outside [0,p)", map[string]any{"case": desc})
				return
			}
		}
	}
	cs.Key("vole", fmt.Sprint(lens), p.Text(16), fmt.Sprint(useCO, kind))
	cs.Seen("moduli_bits", fmt.Sprint(p.BitLen()))
}

// c20Fx runs 1-3 Fx/Fxk sessions of one process concurrently (a BMR player
// serves every peer from its own goroutine, each on its own OT instance and
// connection); the senders pause at PRNG-chosen operations so that receivers
// of different sessions are inside their OT at the same time.
func c20Fx(cs *vrt.Case, r *vrt.Rng) {
	nsess := 1 + r.Intn(3)
	var mu sync.Mutex
	var wg sync.WaitGroup
	for k := 0; k < nsess; k++ {
		wg.Add(1)
		sr := r.Fork()
		go func(k int) {
			defer wg.Done()
			c20FxSession(cs, &mu, sr, k, nsess)
		}(k)
	}
	wg.Wait()
	cs.Count("fx_sessions", int64(nsess))
	if nsess > 1 {
		cs.Count("fx_concurrent_session_groups", 1)
	}
}

// c20FxFaulty: one Fx/Fxk session whose receiver-side transport breaks at a
// PRNG-chosen receive call. Operations completed before the break are judged as
// usual; for the operation during which the transport broke the parties may
// report errors, but if BOTH report success the shares must still recombine (a
// swallowed transport error would hand back a made-up share).
func c20FxFaulty(cs *vrt.Case, r *vrt.Rng) {
	useCOT := r.Bool()
	mk := func() ot.OT {
		if useCOT {
			return ot.NewCOT(ot.NewCO(r.Fork()), r.Fork(), false, false)
		}
		return ot.NewCO(r.Fork())
	}
	type op struct {
		k    bool
		a, b uint
		s    bmr.Label
	}
	var ops []op
	for i := 0; i < 6; i++ {
		if r.Intn(3) == 0 {
			ops = append(ops, op{k: true, b: uint(r.Intn(2)), s: c20Label(r)})
		} else {
			ops = append(ops, op{a: uint(r.Intn(2)), b: uint(r.Intn(2))})
		}
	}
	run := func(failAt int) (rr, xb []uint, rk, xk []bmr.Label, doneS, doneR []bool, calls int, faultOp int, pan *vrt.PanicInfo) {
		snd, rcv := mk(), mk()
		d := newDuplex(r, r.Intn(3), false)
		fio := &otx.FaultIO{IO: d.B, FailAt: failAt}
		n := len(ops)
		rr, xb, rk, xk = make([]uint, n), make([]uint, n), make([]bmr.Label, n), make([]bmr.Label, n)
		doneS, doneR = make([]bool, n), make([]bool, n)
		faultOp = -1
		ra, rb := runPair(d, func() error {
			if err := snd.InitSender(d.A); err != nil {
				return err
			}
			for i, o := range ops {
				var err error
				if o.k {
					rk[i], err = bmr.FxkSend(snd, o.s)
				} else {
					rr[i], err = bmr.FxSend(snd, o.a)
				}
				if err != nil {
					return err
				}
				doneS[i] = true
			}
			return nil
		}, func() error {
			if err := rcv.InitReceiver(fio); err != nil {
				return err
			}
			for i, o := range ops {
				var err error
				if o.k {
					xk[i], err = bmr.FxkReceive(rcv, o.b)
				} else {
					xb[i], err = bmr.FxReceive(rcv, o.b)
				}
				if fio.Fired() && faultOp < 0 {
					faultOp = i
				}
				if err != nil {
					return err
				}
				doneR[i] = true
				if fio.Fired() {
					return nil // the stream is out of step after the break: stop here
				}
			}
			return nil
		})
		return rr, xb, rk, xk, doneS, doneR, fio.Calls, faultOp, firstPanic(ra, rb)
	}
	_, _, _, _, _, _, calls, _, pan := run(0)
	if pan != nil || calls < 2 {
		cs.Inconc("clean Fx run for sizing failed")
		return
	}
	for trial := 0; trial < 6; trial++ {
		failAt := 1 + r.Intn(calls)
		if trial%2 == 0 {
			failAt = calls - r.Intn(min(calls, 8)) // the last messages of the last operations
		}
		rr, xb, rk, xk, doneS, doneR, _, faultOp, pan := run(failAt)
		cs.Evals++
		cs.Count("fx_sessions_with_a_broken_transport", 1)
		desc := map[string]any{"kind": "bmr.Fx/Fxk, receiver's transport breaks", "fail_at_receive_call": failAt, "of": calls, "ot": map[bool]string{true: "COT(CO)", false: "CO"}[useCOT]}
		cs.SetSample(desc)
		if pan != nil {
			cs.Count("fx_broken_transport_panics", 1) // not what this property forbids
			continue
		}
		for i, o := range ops {
			if !doneS[i] || !doneR[i] || (faultOp >= 0 && i > faultOp) {
				continue
			}
			if i == faultOp {
				cs.Count("fx_ops_reported_success_across_the_break", 1)
			}
			if o.k {
				want := rk[i]
				if o.b == 1 {
					want.Xor(o.s)
				}
				if !xk[i].Equal(want) {
					cs.Violate("C20|fxk|success-across-broken-transport", fmt.Sprintf("Fxk: both parties reported success for an operation during which the receiver's transport broke (receive call %d), but r xor x_b != b*s", failAt), map[string]any{"case": desc})
					return
				}
			} else if rr[i]^xb[i] != o.a*o.b {
				cs.Violate("C20|fx|success-across-broken-transport", fmt.Sprintf("Fx: both parties reported success for an operation during which the receiver's transport broke (receive call %d), but r xor x_b = %d and a*b = %d", failAt, rr[i]^xb[i], o.a*o.b), map[string]any{"case": desc})
				return
			}
		}
	}
}

func c20FxSession(cs *vrt.Case, mu *sync.Mutex, r *vrt.Rng, sess, nsess int) {
	useCOT := r.Bool()
	mk := func() ot.OT {
		if useCOT {
			return ot.NewCOT(ot.NewCO(r.Fork()), r.Fork(), r.Bool() && false, false)
		}
		return ot.NewCO(r.Fork())
	}
	snd, rcv := mk(), mk()
	d := newDuplex(r, r.Intn(3), false)
	type op struct {
		k    bool
		a, b uint
		s    bmr.Label
	}
	var ops []op
	reps := 12
	for i := 0; i < reps; i++ {
		for a := uint(0); a < 2; a++ {
			for b := uint(0); b < 2; b++ {
				ops = append(ops, op{a: a, b: b})
			}
		}
		for b := uint(0); b < 2; b++ {
			ops = append(ops, op{k: true, b: b, s: c20Label(r)})
		}
	}
	pr := r.Fork()
	rr := make([]uint, len(ops))
	rk := make([]bmr.Label, len(ops))
	xb := make([]uint, len(ops))
	xk := make([]bmr.Label, len(ops))
	ra, rb := runPair(d, func() error {
		if err := snd.InitSender(d.A); err != nil {
			return err
		}
		for i, o := range ops {
			var err error
			if nsess > 1 && pr.Intn(4) == 0 {
				time.Sleep(time.Duration(pr.Intn(1500)) * time.Microsecond)
			}
			if o.k {
				rk[i], err = bmr.FxkSend(snd, o.s)
			} else {
				rr[i], err = bmr.FxSend(snd, o.a)
			}
			if err != nil {
				return err
			}
		}
		return nil
	}, func() error {
		if err := rcv.InitReceiver(d.B); err != nil {
			return err
		}
		for i, o := range ops {
			var err error
			if o.k {
				xk[i], err = bmr.FxkReceive(rcv, o.b)
			} else {
				xb[i], err = bmr.FxReceive(rcv, o.b)
			}
			if err != nil {
				return err
			}
		}
		return nil
	})
	mu.Lock()
	defer mu.Unlock()
	desc := map[string]any{"kind": "bmr.Fx/Fxk", "ops": len(ops), "ot": map[bool]string{true: "COT(CO)", false: "CO"}[useCOT], "concurrent_sessions": nsess, "session": sess}
	cs.SetSample(desc)
	if pi := firstPanic(ra, rb); pi != nil {
		if pi.InMPC {
			cs.Violate("C20|panic|"+pi.Frame, "Fx panicked: "+pi.Value, map[string]any{"case": desc, "stack": pi.Stack})
		} else {
			cs.Inconc("harness panic: " + pi.Value + "\n" + pi.Stack)
		}
		return
	}
	if ra.err != nil || rb.err != nil {
		cs.Violate("C20|fx-error", fmt.Sprintf("honest Fx/Fxk failed: %v / %v", ra.err, rb.err), map[string]any{"case": desc})
		return
	}
	for i, o := range ops {
		cs.Evals++
		if o.k {
			want := rk[i]
			if o.b == 1 {
				want.Xor(o.s)
			}
			if !xk[i].Equal(want) {
				cs.Violate("C20|fxk", fmt.Sprintf("Fxk: r xor x_b != b*s for b=%d s=%v", o.b, o.s), map[string]any{"case": desc})
				return
			}
			cs.Key("fxk", fmt.Sprint(o.b), o.s.String())
		} else {
			if rr[i]^xb[i] != o.a*o.b || rr[i] > 1 || xb[i] > 1 {
				cs.Violate("C20|fx", fmt.Sprintf("Fx: r xor x_b = %d, a*b = %d (a=%d b=%d)", rr[i]^xb[i], o.a*o.b, o.a, o.b), map[string]any{"case": desc})
				return
			}
			cs.Key("fx", fmt.Sprint(o.a, o.b, rr[i]))
		}
	}
}

// c20Label draws the string operand of Fxk from value classes, not only from
// the uniform ones: zero, all-ones, uniform, and sparse labels (one non-zero
// byte or one bit at a PRNG-chosen position, a zero prefix or suffix of
// PRNG-chosen length), so that a shortcut keyed on "looks like zero" or on a
// part of the label is driven.
func c20Label(r *vrt.Rng) bmr.Label {
	var s bmr.Label
	switch r.Intn(8) {
	case 0:
	case 1:
		for j := range s {
			s[j] = 0xff
		}
	case 2, 3:
		r.Read(s[:])
	case 4:
		s[r.Intn(len(s))] = byte(1 + r.Intn(255))
	case 5:
		s[r.Intn(len(s))] = 1 << uint(r.Intn(8))
	case 6: // zero prefix
		r.Read(s[:])
		n := 1 + r.Intn(len(s)-1)
		for j := 0; j < n; j++ {
			s[j] = 0
		}
		if s[len(s)-1] == 0 {
			s[len(s)-1] = 1
		}
	default: // zero suffix
		r.Read(s[:])
		n := 1 + r.Intn(len(s)-1)
		for j := len(s) - n; j < len(s); j++ {
			s[j] = 0
		}
		if s[0] == 0 {
			s[0] = 0x80
		}
	}
	return s
}
