package props

import (
	"fmt"
	"hash/fnv"
	"math/big"
	"runtime"
	"strconv"
	"sync"
	"unsafe"

	"github.com/markkurossi/mpc/circuit"
	"github.com/markkurossi/mpc/ot"

	"verifharness/internal/refc"
	"verifharness/internal/vrt"
)

// The release storm. The race detector does not instrument the clear()
// builtin (memclr), does not see into code it slows down ten times, and a
// monitor mutex hides races across operations; what is left for a write into
// scratch that was already handed back is the functional oracle: somebody
// else's live garbling changes. That needs real overlap in time, so this
// workload runs in a child process of the NON-race build on all cores, on a
// large circuit (long copies and wipes), with goroutines that do nothing but
// garble, checksum, and release in bursts of 2-4 garblings back to back (the
// second release of a burst lands in the part of a sync.Pool other Ps steal
// from), without any synchronisation between them.
//
// vcheck aux c17storm <seed> <gates> <goroutines> <iterations>
// prints "STORM ok garblings=.. bursts=.. evals=.." or "STORM violation: ..".

func c17Sum(w []ot.Wire, g [][]ot.Label) uint64 {
	h := fnv.New64a()
	if len(w) > 0 {
		h.Write(unsafe.Slice((*byte)(unsafe.Pointer(&w[0])), len(w)*int(unsafe.Sizeof(w[0]))))
	}
	for _, row := range g {
		if len(row) > 0 {
			h.Write(unsafe.Slice((*byte)(unsafe.Pointer(&row[0])), len(row)*int(unsafe.Sizeof(row[0]))))
		}
	}
	return h.Sum64()
}

func c17StormAux(args []string) int {
	if len(args) != 4 {
		return 64
	}
	seed, _ := strconv.ParseUint(args[0], 10, 64)
	gates, _ := strconv.Atoi(args[1])
	G, _ := strconv.Atoi(args[2])
	iters, _ := strconv.Atoi(args[3])
	r := vrt.NewRng(seed)
	var c *circuit.Circuit
	if seed%3 != 0 {
		// many wires, few garbled rows, the rows first: gate i = op(w[i],
		// w[i+1]) -> w[i+2], AND for the first gates and free XOR after them.
		// Whoever writes over the scratch of such a circuit is busy for long
		// (the wires) and a garbling that was served the scratch meanwhile has
		// its rows written early
		nAnd := r.Range(32, 512)
		c = &circuit.Circuit{NumGates: gates, NumWires: gates + 2,
			Inputs:  circuit.IO{{Type: refc.UintInfo(1)}, {Type: refc.UintInfo(1)}},
			Outputs: circuit.IO{{Type: refc.UintInfo(8)}}}
		for i := 0; i < gates; i++ {
			op := circuit.XOR
			if i < nAnd {
				op = circuit.AND
			}
			c.Gates = append(c.Gates, circuit.Gate{Input0: circuit.Wire(i), Input1: circuit.Wire(i + 1), Output: circuit.Wire(i + 2), Op: op})
		}
	} else {
		c = refc.Gen(r, refc.Shape{Args: []int{4, 4}, Outs: []int{8}, Gates: gates, Kind: 1, SameP: 5})
	}
	nin, nout := c.Inputs.Size(), c.Outputs.Size()
	var inputs []*big.Int
	for i := 0; i < 4; i++ {
		inputs = append(inputs, r.Big(nin))
	}
	want, err := refc.EvalFlat(c, inputs)
	if err != nil {
		fmt.Println("STORM inconclusive: " + err.Error())
		return 0
	}
	type live struct {
		g   *circuit.Garbled
		key []byte
		sum uint64
	}
	var mu sync.Mutex
	var problem string
	var garblings, bursts, evals int64
	seeds := make([]uint64, G)
	for i := range seeds {
		seeds[i] = r.U64()
	}
	start := make(chan struct{})
	var wg sync.WaitGroup
	for gi := 0; gi < G; gi++ {
		wg.Add(1)
		go func(id int) {
			defer wg.Done()
			rr := vrt.NewRng(seeds[id])
			var mine []live
			var ng, nb, ne int64
			fail := func(s string) {
				mu.Lock()
				if problem == "" {
					problem = s
				}
				mu.Unlock()
			}
			defer func() {
				mu.Lock()
				garblings += ng
				bursts += nb
				evals += ne
				mu.Unlock()
			}()
			evalOwn := func(l live) bool {
				iv := rr.Intn(len(inputs))
				wires := make([]ot.Label, c.NumWires)
				for i := 0; i < nin; i++ {
					if inputs[iv].Bit(i) == 1 {
						wires[i] = l.g.Wires[i].L1
					} else {
						wires[i] = l.g.Wires[i].L0
					}
				}
				if err := c.Eval(l.key, wires, l.g.Gates); err != nil {
					fail("Eval on the goroutine's own live garbling failed: " + err.Error())
					return false
				}
				for i := 0; i < nout; i++ {
					w := c.NumWires - nout + i
					bit, err := circuit.BitFromLabel(l.g.Wires[w], wires[w])
					if err != nil || bit != (want[iv].Bit(i) == 1) {
						fail(fmt.Sprintf("Eval on a live garbling decoded output %d wrongly (%v, %v)", i, bit, err))
						return false
					}
				}
				ne++
				return true
			}
			<-start
			if id%2 == 1 {
				// a taker: garbles, evaluates, and keeps the garbling without
				// ever releasing it (optional by contract), so its Garble
				// always finds its own P's pool empty and takes what other Ps
				// have just put back
				for it := 0; it < 2*iters; it++ {
					key := rr.Bytes(16)
					g, err := c.Garble(rr.Fork(), key)
					if err != nil {
						fail("Garble failed: " + err.Error())
						return
					}
					ng++
					l := live{g, key, c17Sum(g.Wires, g.Gates)}
					if !evalOwn(l) {
						return
					}
					if c17Sum(l.g.Wires, l.g.Gates) != l.sum {
						fail("a live garbling changed while its owner held it (checksum of labels and rows differs from the one taken when Garble returned)")
						return
					}
				}
				return
			}
			for it := 0; it < iters; it++ {
				// garble until 2-4 are held
				hold := rr.Range(2, 4)
				for len(mine) < hold {
					key := rr.Bytes(16)
					g, err := c.Garble(rr.Fork(), key)
					if err != nil {
						fail("Garble failed: " + err.Error())
						return
					}
					mine = append(mine, live{g, key, c17Sum(g.Wires, g.Gates)})
					ng++
				}
				// one Eval on a held garbling
				if it%4 == 0 && !evalOwn(mine[rr.Intn(len(mine))]) {
					return
				}
				// every held garbling is still what Garble returned ...
				for _, l := range mine {
					if c17Sum(l.g.Wires, l.g.Gates) != l.sum {
						fail("a live garbling changed while its owner held it (checksum of labels and rows differs from the one taken when Garble returned)")
						return
					}
				}
				// ... and all go back in one burst
				for _, l := range mine {
					l.g.Release()
				}
				mine = mine[:0]
				nb++
				if it%64 == 63 {
					runtime.Gosched()
				}
			}
		}(gi)
	}
	close(start)
	wg.Wait()
	if problem != "" {
		fmt.Println("STORM violation: " + problem)
		return 0
	}
	fmt.Printf("STORM ok garblings=%d bursts=%d evals=%d\n", garblings, bursts, evals)
	return 0
}

func init() { vrt.AuxCmds["c17storm"] = c17StormAux }
