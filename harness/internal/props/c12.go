package props

import (
	"fmt"
	"math/big"
	"strings"
	"time"

	"verifharness/internal/refc"
	"verifharness/internal/vrt"
)

var c12Ops = []string{"+", "-", "*", "/", "%", "&", "|", "^", "&^", "<<", ">>", "<", "<=", ">", ">=", "==", "!=", "neg", "not"}
var c12Widths = []int{1, 2, 7, 8, 9, 31, 32, 33, 63, 64, 65, 127, 128, 129, 130}

// ssa opcode families per operator
var c12SSA = map[string][]string{
	"+": {"iadd", "uadd"}, "-": {"isub", "usub"}, "*": {"imult", "umult"}, "/": {"idiv", "udiv"}, "%": {"imod", "umod"},
	"&": {"band"}, "|": {"bor"}, "^": {"bxor"}, "&^": {"bclr"}, "<<": {"lshift"}, ">>": {"rshift", "srshift"},
	"<": {"ilt", "ult"}, "<=": {"ile", "ule"}, ">": {"igt", "ugt"}, ">=": {"ige", "uge"}, "==": {"eq"}, "!=": {"neq"},
	"neg": {"isub", "usub"}, "not": {"not"},
}

func countOps(listing string, fam []string) int {
	n := 0
	for _, ln := range strings.Split(listing, "\n") {
		f := strings.Fields(ln)
		if len(f) == 0 {
			continue
		}
		for _, o := range fam {
			if f[0] == o {
				n++
			}
		}
	}
	return n
}

// c12Values is the fixed boundary list of a type: the case list of this
// property is fully enumerated (no PRNG), so that the set of classes in which
// folding disagrees is exactly reproducible.
func c12Values(signed bool, w int, n int) []*big.Int {
	one := big.NewInt(1)
	var vs []*big.Int
	add := func(v *big.Int) {
		for _, o := range vs {
			if o.Cmp(v) == 0 {
				return
			}
		}
		vs = append(vs, v)
	}
	pat := new(big.Int)
	for i := 0; i < w; i += 2 {
		pat.SetBit(pat, i, 1)
	}
	if signed {
		max := new(big.Int).Sub(new(big.Int).Lsh(one, uint(w-1)), one)
		min := new(big.Int).Neg(new(big.Int).Lsh(one, uint(w-1)))
		add(big.NewInt(0))
		add(big.NewInt(-1))
		add(max)
		add(min)
		add(big.NewInt(1))
		p := new(big.Int).And(pat, max)
		add(p)
		add(new(big.Int).Neg(new(big.Int).Add(p, one)))
	} else {
		all := new(big.Int).Sub(new(big.Int).Lsh(one, uint(w)), one)
		add(big.NewInt(0))
		add(all)
		add(new(big.Int).Lsh(one, uint(w-1)))
		add(big.NewInt(1))
		add(new(big.Int).And(pat, all))
		add(new(big.Int).Sub(new(big.Int).Lsh(one, uint(w-1)), one))
		add(new(big.Int).Rsh(all, uint(w/2)))
	}
	if len(vs) > n {
		vs = vs[:n]
	}
	return vs
}

func c12Lit(T string, v *big.Int) string { return fmt.Sprintf("%s(%s)", T, v.String()) }

var c12Consumers = []string{"as-is", "plus-x", "div-x", "less-x", "shift", "cast-wider", "cast-narrower"}

func init() {
	vrt.Register(&vrt.Prop{
		ID: "C12", Level: "exploration",
		Rule: "fully enumerated (no PRNG): case = (operator from + - * / % & | ^ &^ << >> < <= > >= == != unary- !, signedness, width in {1,2,7,8,9,31,32,33,63,64,65,127,128,129,130}); inside, every ordered pair of a fixed boundary list (0, 1, -1/all-ones, max, min/top bit, 0x55.., 2^(w/2)-1; 5 values in quick, 7 in thorough; shift counts 0,1,w/2,w-1,w,w+1) x consumers {returned as is, + x, / x, < x, shifted, cast wider, cast narrower} (3 per pair in quick). " +
			"P_const applies the operator to typed constants, P_run to run-time inputs; the SSA listings confirm that P_const was folded. Oracle: both circuits agree on the same values for several consumer inputs x; a compiler panic is a violation; a compile error of P_const is counted as 'rejected'. " +
			"Known findings are keyed (operator, signedness, width class): the enumeration is deterministic so the set of failing classes is reproducible. Distinct non-trivial = folded (operator, type, values, consumer) tuples.",
		NumCases:    func(t string) int { return len(c12Ops) * len(c12Widths) * 2 },
		CaseTimeout: 6 * time.Minute,
		Run:         runC12,
		Finalize: func(a *vrt.Agg) error {
			if a.Counters["folded"] < 50 {
				return fmt.Errorf("folding confirmed for only %d cases", a.Counters["folded"])
			}
			return nil
		},
	})
}

// runC12: most cases run alone; some run as concurrent sessions of the same
// case shape in one process (package-level state in the code under test).
func runC12(cs *vrt.Case) {
	if cs.Idx%16 == 5 {
		cs.Twins(2, func(sub *vrt.Case, _ *vrt.Rng) { runC12One(sub) })
		return
	}
	runC12One(cs)
}

func runC12One(cs *vrt.Case) {
	if cs.Idx%19 == 7 {
		c12Identity(cs, cs.Rng)
	}
	if cs.Idx%19 == 11 {
		c12Pow2(cs, cs.Rng)
	}
	op := c12Ops[cs.Idx%len(c12Ops)]
	w := c12Widths[(cs.Idx/len(c12Ops))%len(c12Widths)]
	signed := (cs.Idx/(len(c12Ops)*len(c12Widths)))%2 == 0
	if signed && w < 2 {
		return // int1 is not a useful type
	}
	T := fmt.Sprintf("uint%d", w)
	kind := "uint"
	if signed {
		T = fmt.Sprintf("int%d", w)
		kind = "int"
	}
	boolOp := op == "not"
	if boolOp {
		if w != 8 || !signed {
			return
		}
		T = "bool"
	}
	isCmp := strings.ContainsAny(op, "<>=!") && op != "<<" && op != ">>"
	isShift := op == "<<" || op == ">>"
	nvals := 5
	if cs.Thorough() {
		nvals = 7
	}
	as := c12Values(signed, w, nvals)
	bs := as
	if isShift {
		bs = nil
		for _, k := range []int{0, 1, w / 2, w - 1, w, w + 1} {
			if k >= 0 {
				bs = append(bs, big.NewInt(int64(k)))
			}
		}
	}
	if op == "neg" {
		bs = []*big.Int{big.NewInt(0)}
	}
	if boolOp {
		as, bs = []*big.Int{big.NewInt(0), big.NewInt(1)}, []*big.Int{big.NewInt(0)}
	}
	wclass := "w<=32"
	switch {
	case w > 64:
		wclass = "w>64"
	case w > 32:
		wclass = "w33-64"
	}
	class := fmt.Sprintf("%s|%s|%s", op, map[bool]string{true: "signed", false: "unsigned"}[signed], wclass)
	if boolOp {
		class = "not|bool"
	}
	resT := T
	xT := T
	if isCmp || boolOp {
		resT, xT = "bool", "bool"
	}
	xw := w
	if xT == "bool" {
		xw = 1
	}
	aw := w
	if boolOp {
		aw = 1
	}
	// consumers: (name, return expression over v and x, return type)
	type consumer struct{ name, ret, retT string }
	var consumers []consumer
	if resT == "bool" {
		consumers = []consumer{{"as-is", "v", "bool"}, {"and-x", "v && x", "bool"}, {"neq-x", "v != x", "bool"}}
	} else {
		div := "v / (x | 1)"
		if signed {
			div = "v / 3"
		}
		nw := max(1, w-3)
		if signed && nw < 2 {
			nw = 2
		}
		consumers = []consumer{{"as-is", "v", resT}, {"plus-x", "v + x", resT}, {"div-x", div, resT}, {"less-x", "v < x", "bool"},
			{"shift", fmt.Sprintf("(v << %d) ^ (v >> %d)", w/3, w/2), resT},
			{"cast-wider", fmt.Sprintf("%s%d(v)", kind, w+5), fmt.Sprintf("%s%d", kind, w+5)},
			{"cast-narrower", fmt.Sprintf("%s%d(v)", kind, nw), fmt.Sprintf("%s%d", kind, nw)}}
	}
	cs.SetSample(map[string]any{"class": class, "type": T, "values": len(as) * len(bs), "consumers": len(consumers)})
	xs := c12Values(false, xw, 4)
	mask := func(v *big.Int, bits int) *big.Int {
		return new(big.Int).Mod(v, new(big.Int).Lsh(big.NewInt(1), uint(bits)))
	}
	fam := c12SSA[op]
	if !boolOp {
		c12History(cs, op, T, w, signed, as, bs, class)
	}
	pairNo := 0
	for _, a := range as {
		for _, b := range bs {
			pairNo++
			if (op == "/" || op == "%") && b.Sign() == 0 {
				// division by a constant zero: only "never crashes"
				pc := fmt.Sprintf("package main\n\nfunc main(x %s, y uint8) %s {\n\tv := %s %s %s\n\treturn v\n}\n", xT, resT, c12Lit(T, a), op, c12Lit(T, b))
				if _, _, _, pan := compileWithSSA(pc, nil, nil); pan != nil && pan.InMPC {
					cs.Violate("C12|compiler-panic|division-by-constant-zero|"+trimNum(firstWords(pan.Value, 6)), "compiler crashed on a constant division by zero: "+pan.Value, map[string]any{"P_const": pc, "stack": pan.Stack})
				}
				cs.Count("constant_division_by_zero_probes", 1)
				continue
			}
			var ec, er string
			switch {
			case boolOp:
				ec, er = "!"+[]string{"false", "true"}[a.Int64()], "!a"
			case op == "neg":
				ec, er = "-"+c12Lit(T, a), "-a"
			case isShift:
				ec, er = fmt.Sprintf("%s %s %s", c12Lit(T, a), op, b), fmt.Sprintf("a %s %s", op, b)
			default:
				ec, er = fmt.Sprintf("%s %s %s", c12Lit(T, a), op, c12Lit(T, b)), fmt.Sprintf("a %s b", op)
			}
			for ci, co := range consumers {
				if !cs.Thorough() && len(consumers) > 3 && (ci+pairNo)%3 != 0 && ci != 0 {
					continue
				}
				pc := fmt.Sprintf("package main\n\nfunc main(x %s, y uint8) %s {\n\tv := %s\n\treturn %s\n}\n", xT, co.retT, ec, co.ret)
				pr := fmt.Sprintf("package main\n\nfunc main(x %s, y uint8, a %s, b %s) %s {\n\tv := %s\n\treturn %s\n}\n", xT, T, T, co.retT, er, co.ret)
				desc := map[string]any{"P_const": pc, "P_run": pr, "a": a.String(), "b": b.String(), "class": class, "consumer": co.name}
				cc, ssaC, errC, panC := compileWithSSA(pc, nil, nil)
				if panC != nil {
					if !panC.InMPC {
						cs.Inconc("harness panic: " + panC.Value)
						return
					}
					cs.Violate("C12|compiler-panic|"+class+"|"+trimNum(firstWords(panC.Value, 6)), "compiler crashed while folding: "+panC.Value, map[string]any{"case": desc, "stack": panC.Stack})
					continue
				}
				if errC != nil {
					cs.Count("rejected", 1)
					cs.Seen("rejections", trimNum(lastLine(errC.Error())))
					continue
				}
				cr, ssaR, errR, panR := compileWithSSA(pr, nil, nil)
				if panR != nil || errR != nil {
					cs.Count("run_time_form_not_compilable", 1)
					continue
				}
				if countOps(ssaC, fam) >= countOps(ssaR, fam) {
					cs.Count("not_folded", 1)
					continue
				}
				cs.Count("folded", 1)
				cs.Seen("folded_operators", op)
				ok := true
				for _, x := range xs {
					y := big.NewInt(0x5a)
					inC := new(big.Int).Or(x, new(big.Int).Lsh(y, uint(xw)))
					inR := new(big.Int).Set(inC)
					inR.Or(inR, new(big.Int).Lsh(mask(a, aw), uint(xw+8)))
					inR.Or(inR, new(big.Int).Lsh(mask(b, aw), uint(xw+8+aw)))
					oc, e1 := refc.EvalFlat(cc, []*big.Int{inC})
					or, e2 := refc.EvalFlat(cr, []*big.Int{inR})
					if e1 != nil || e2 != nil {
						cs.Inconc(fmt.Sprint(e1, e2))
						return
					}
					cs.Evals++
					if oc[0].Cmp(or[0]) != 0 {
						// the enumeration is deterministic: the unchanged tree's failing
						// (type, values, consumer) tuples of the known classes are pinned;
						// another failing tuple of a known class is a new witness
						wkey := vrt.WitnessKey("C12|folded-differs|"+class, fmt.Sprintf("%016x", vrt.Hash64(T, op, a.String(), b.String(), co.name)))
						cs.Violate(wkey, fmt.Sprintf("%s (consumer %s): folded program returns %s, run-time evaluation of the same values %s (x=%s)", ec, co.name, oc[0].Text(10), or[0].Text(10), x),
							map[string]any{"case": desc, "x": x.String()})
						ok = false
						break
					}
				}
				if ok {
					cs.Count("folded_and_equal", 1)
				} else {
					cs.Count("folded_and_different", 1)
				}
				cs.Key(class, T, a.String(), b.String(), co.name)
			}
		}
	}
}

// c12History: folding must not depend on what was folded before. A function
// applies the case's operator to two constants and then a second operator to
// the same two constants, and returns both results and the constants
// themselves. Each returned value is compared with the run-time form (the
// property) and with the same expression folded alone in a fresh program: a
// value that differs from the run-time form AND from its isolated fold cannot
// be one of the (deterministic, per-operator) known folding classes - an
// earlier fold changed a constant or left state behind.
func c12History(cs *vrt.Case, op, T string, w int, signed bool, as, bs []*big.Int, class string) {
	isCmpOp := func(o string) bool { return strings.ContainsAny(o, "<>=!") && o != "<<" && o != ">>" }
	src := func(o string) (string, string, bool) { // expression, result type, needs b != 0
		switch o {
		case "neg":
			return "-a", T, false
		case "<<", ">>":
			return fmt.Sprintf("a %s %d", o, w/2), T, false
		case "/", "%":
			return "a " + o + " b", T, true
		}
		if isCmpOp(o) {
			return "a " + o + " b", "bool", false
		}
		return "a " + o + " b", T, false
	}
	e1, t1, nz1 := src(op)
	seconds := []string{"+", "-", "*", "&", "|", "^", "==", "!=", "<", ">=", "neg", "<<", ">>", "/", "%", "&^", "<=", ">"}
	mask := func(v *big.Int) *big.Int { return new(big.Int).Mod(v, new(big.Int).Lsh(big.NewInt(1), uint(w))) }
	fits := func(v *big.Int) bool { // representable in T
		if signed {
			lim := new(big.Int).Lsh(big.NewInt(1), uint(w-1))
			return v.Cmp(new(big.Int).Neg(lim)) >= 0 && v.Cmp(lim) < 0
		}
		return v.Sign() >= 0 && v.BitLen() <= w
	}
	iso := map[string]*big.Int{} // isolated fold of (expression, a, b); nil = not available
	isoFold := func(e, t string, a, b *big.Int) *big.Int {
		k := e + "|" + a.String() + "|" + b.String()
		if v, ok := iso[k]; ok {
			return v
		}
		iso[k] = nil
		pc := fmt.Sprintf("package main\n\nfunc main(x uint8, y uint8) %s {\n\ta := %s\n\tb := %s\n\tr := %s\n\treturn r\n}\n", t, c12Lit(T, a), c12Lit(T, b), e)
		if e == "a" || e == "b" {
			pc = fmt.Sprintf("package main\n\nfunc main(x uint8, y uint8) %s {\n\ta := %s\n\tb := %s\n\treturn %s\n}\n", t, c12Lit(T, a), c12Lit(T, b), e)
		}
		c, _, err, pan := compileWithSSA(pc, nil, nil)
		if err != nil || pan != nil || c == nil {
			return nil
		}
		o, err := refc.EvalFlat(c, []*big.Int{big.NewInt(0)})
		if err != nil {
			return nil
		}
		iso[k] = o[0]
		return o[0]
	}
	n := 0
	for ai, a := range as {
		for bi, b := range bs {
			if ai >= 4 || bi >= 4 || !fits(a) || !fits(b) {
				continue
			}
			for k := 0; k < 3; k++ {
				op2 := seconds[(ai*7+bi*3+k*5+w)%len(seconds)]
				e2, t2, nz2 := src(op2)
				if (nz1 || nz2) && mask(b).Sign() == 0 {
					continue
				}
				n++
				pc := fmt.Sprintf("package main\n\nfunc main(x uint8, y uint8) (%s, %s, %s, %s) {\n\ta := %s\n\tb := %s\n\tr1 := %s\n\tr2 := %s\n\treturn r1, r2, a, b\n}\n", t1, t2, T, T, c12Lit(T, a), c12Lit(T, b), e1, e2)
				pr := fmt.Sprintf("package main\n\nfunc main(a %s, b %s) (%s, %s, %s, %s) {\n\tr1 := %s\n\tr2 := %s\n\treturn r1, r2, a, b\n}\n", T, T, t1, t2, T, T, e1, e2)
				desc := map[string]any{"P_const": pc, "P_run": pr, "a": a.String(), "b": b.String(), "first": op, "second": op2}
				cc, _, errC, panC := compileWithSSA(pc, nil, nil)
				if panC != nil {
					if panC.InMPC {
						cs.Violate("C12|compiler-panic|"+class+"|"+trimNum(firstWords(panC.Value, 6)), "compiler crashed while folding a sequence: "+panC.Value, map[string]any{"case": desc, "stack": panC.Stack})
					}
					continue
				}
				if errC != nil {
					cs.Count("history_rejected", 1)
					continue
				}
				cr, _, errR, panR := compileWithSSA(pr, nil, nil)
				if errR != nil || panR != nil {
					cs.Count("history_run_form_not_compilable", 1)
					continue
				}
				oc, e1x := refc.EvalFlat(cc, []*big.Int{big.NewInt(0)})
				or, e2x := refc.EvalFlat(cr, []*big.Int{new(big.Int).Or(mask(a), new(big.Int).Lsh(mask(b), uint(w)))})
				if e1x != nil || e2x != nil {
					continue
				}
				vc, vr := refc.SplitOut(cc.Outputs, oc[0]), refc.SplitOut(cr.Outputs, or[0])
				if len(vc) != 4 || len(vr) != 4 {
					continue
				}
				cs.Evals++
				cs.Count("history_sequences", 1)
				exprs := []string{e1, e2, "a", "b"}
				typs := []string{t1, t2, T, T}
				names := []string{"first result", "second result", "operand a", "operand b"}
				for i := range vc {
					if vc[i].Cmp(vr[i]) == 0 {
						continue
					}
					alone := isoFold(exprs[i], typs[i], a, b)
					if alone == nil || alone.Cmp(vc[i]) == 0 {
						cs.Count("history_differs_like_isolated_fold", 1)
						continue // the per-operator enumeration judges this
					}
					what := []string{op, op2, "operand", "operand"}[i]
					cs.Violate("C12|fold-depends-on-history|after "+op+"|"+what, fmt.Sprintf("%s of `%s; %s` on constants a=%s b=%s (%s): folded in sequence gives %s, folded alone %s, the circuit on the same run-time values %s", names[i], e1, e2, a, b, T, vc[i].Text(10), alone.Text(10), vr[i].Text(10)),
						map[string]any{"case": desc})
				}
			}
		}
	}
	_ = n
}

func firstWords(s string, n int) string {
	f := strings.Fields(s)
	if len(f) > n {
		f = f[:n]
	}
	return strings.Join(f, " ")
}

// c12Identity: constants that agree in their low 32 bits, or are each
// other's sign extension from 32 bits, inside ONE program next to a folded
// expression whose value is one of them. A constant is known to the rest of
// the compiler by its name; two values under one name share wires. The folded
// program, its run-time twin and plain arithmetic must agree on every output.
func c12Identity(cs *vrt.Case, r *vrt.Rng) {
	one := big.NewInt(1)
	for trial := 0; trial < 6; trial++ {
		w := vrt.Pick(r, []int{64, 64, 96, 128})
		T := fmt.Sprintf("uint%d", w)
		v0 := new(big.Int).Add(new(big.Int).Lsh(one, 31), r.Big(31))
		switch r.Intn(4) {
		case 0:
			v0 = big.NewInt(0xffffffff)
		case 1:
			v0 = big.NewInt(0x80000000)
		}
		var W *big.Int
		twin := r.Intn(4)
		switch twin {
		case 0: // sign extension of v0 from 32 to 64 bits
			W = new(big.Int).Or(v0, new(big.Int).Lsh(big.NewInt(0xffffffff), 32))
		case 1:
			W = new(big.Int).Add(v0, new(big.Int).Lsh(one, 32))
		case 2:
			W = new(big.Int).Or(v0, new(big.Int).Lsh(one, 63))
		default:
			W = new(big.Int).Or(v0, new(big.Int).Lsh(r.Big(32), 32))
		}
		var a, b *big.Int
		op := vrt.Pick(r, []string{"+", "|", "^"})
		switch op {
		case "+":
			b = big.NewInt(int64(r.Range(1, 1000)))
			a = new(big.Int).Sub(v0, b)
		case "|":
			a, b = new(big.Int).And(v0, big.NewInt(0xffff0000)), new(big.Int).And(v0, big.NewInt(0x0000ffff))
		default:
			b = r.Big(32)
			a = new(big.Int).Xor(v0, b)
		}
		wFirst := r.Bool()
		body := func(expr string) string {
			decl := []string{"\tv := " + expr + "\n", fmt.Sprintf("\tw := %s(%s)\n", T, W)}
			ret := "\treturn x ^ v, x + w\n"
			if wFirst {
				decl[0], decl[1] = decl[1], decl[0]
				ret = "\treturn x + w, x ^ v\n"
			}
			return decl[0] + decl[1] + ret
		}
		pc := fmt.Sprintf("package main\n\nfunc main(x %s, y uint8) (%s, %s) {\n%s}\n", T, T, T, body(fmt.Sprintf("%s(%s) %s %s(%s)", T, a, op, T, b)))
		pr := fmt.Sprintf("package main\n\nfunc main(x %s, y uint8, a %s, b %s) (%s, %s) {\n%s}\n", T, T, T, T, T, body("a "+op+" b"))
		desc := map[string]any{"P_const": pc, "P_run": pr, "a": a.String(), "b": b.String(), "folded_value": v0.Text(16), "other_constant": W.Text(16)}
		cs.SetSample(desc)
		cc, _, errC, panC := compileWithSSA(pc, nil, nil)
		cr, _, errR, panR := compileWithSSA(pr, nil, nil)
		if panC != nil || panR != nil {
			pan := panC
			if pan == nil {
				pan = panR
			}
			if pan.InMPC {
				cs.Violate("C12|compiler-panic|constant-identity|"+trimNum(firstWords(pan.Value, 6)), "compiler crashed: "+pan.Value, map[string]any{"case": desc, "stack": pan.Stack})
			} else {
				cs.Inconc("harness panic: " + pan.Value)
			}
			continue
		}
		if errC != nil || errR != nil {
			cs.Count("rejected", 1)
			continue
		}
		mod := new(big.Int).Lsh(one, uint(w))
		for _, x := range c12Values(false, w, 4) {
			inC := new(big.Int).Or(x, new(big.Int).Lsh(big.NewInt(0x5a), uint(w)))
			inR := new(big.Int).Set(inC)
			inR.Or(inR, new(big.Int).Lsh(a, uint(w+8)))
			inR.Or(inR, new(big.Int).Lsh(b, uint(2*w+8)))
			oc, e1 := refc.EvalFlat(cc, []*big.Int{inC})
			or, e2 := refc.EvalFlat(cr, []*big.Int{inR})
			if e1 != nil || e2 != nil {
				cs.Inconc(fmt.Sprint(e1, e2))
				return
			}
			cs.Evals++
			xv := new(big.Int).Xor(x, v0)
			xw := new(big.Int).Mod(new(big.Int).Add(x, W), mod)
			truth := new(big.Int).Or(xv, new(big.Int).Lsh(xw, uint(w)))
			if wFirst {
				truth = new(big.Int).Or(xw, new(big.Int).Lsh(xv, uint(w)))
			}
			if oc[0].Cmp(or[0]) != 0 || oc[0].Cmp(truth) != 0 {
				cs.Violate("C12|constant-identity|"+[]string{"sign-extension-twin", "plus-2^32", "bit-63", "other-high-half"}[twin],
					fmt.Sprintf("a program holding the folded value %s and the constant %s: folded form gives %s, run-time form %s, arithmetic %s (x=%s)", v0.Text(16), W.Text(16), oc[0].Text(16), or[0].Text(16), truth.Text(16), x.Text(16)),
					map[string]any{"case": desc})
				break
			}
		}
		cs.Count("constant_identity_probes", 1)
		cs.Key("identity", T, v0.Text(16), W.Text(16), op, fmt.Sprint(wFirst))
	}
}

// c12Pow2: folded signed division and remainder by powers of two (and their
// neighbours) with negative dividends that are not multiples of the divisor,
// at the width whose constants are stored with their sign (int64):
// truncation toward zero is what the run-time circuit does, a shift is not.
func c12Pow2(cs *vrt.Case, r *vrt.Rng) {
	for trial := 0; trial < 8; trial++ {
		w := 64 // narrower negative constants are folded as unsigned values (known finding): their division is wrong before any shortcut
		T := fmt.Sprintf("int%d", w)
		k := r.Range(1, w-2)
		b := new(big.Int).Lsh(big.NewInt(1), uint(k))
		switch r.Intn(4) {
		case 0:
			b.Add(b, big.NewInt(1))
		case 1:
			b.Sub(b, big.NewInt(1))
		}
		a := r.Big(w - 1)
		a.Neg(a)
		if r.Intn(4) == 0 {
			a = big.NewInt(int64(-r.Range(1, 9)))
		}
		if a.Sign() == 0 || b.Sign() == 0 {
			continue
		}
		// only the quotient: the sign of a folded signed remainder is a known
		// finding of its own (class %|signed)
		op := "/"
		lit := func(v *big.Int) string {
			if v.Sign() < 0 {
				return fmt.Sprintf("-%s(%s)", T, new(big.Int).Neg(v))
			}
			return fmt.Sprintf("%s(%s)", T, v)
		}
		pc := fmt.Sprintf("package main\n\nfunc main(x %s, y uint8) %s {\n\tv := %s %s %s\n\treturn v ^ x\n}\n", T, T, lit(a), op, lit(b))
		pr := fmt.Sprintf("package main\n\nfunc main(x %s, y uint8, a %s, b %s) %s {\n\tv := a %s b\n\treturn v ^ x\n}\n", T, T, T, T, op)
		desc := map[string]any{"P_const": pc, "P_run": pr, "a": a.String(), "b": b.String()}
		cs.SetSample(desc)
		cc, _, errC, panC := compileWithSSA(pc, nil, nil)
		cr, _, errR, panR := compileWithSSA(pr, nil, nil)
		if panC != nil || panR != nil || errC != nil || errR != nil {
			cs.Count("rejected", 1)
			continue
		}
		mod := new(big.Int).Lsh(big.NewInt(1), uint(w))
		au := new(big.Int).Mod(a, mod)
		inC := new(big.Int).Lsh(big.NewInt(0x5a), uint(w))
		inR := new(big.Int).Set(inC)
		inR.Or(inR, new(big.Int).Lsh(au, uint(w+8)))
		inR.Or(inR, new(big.Int).Lsh(b, uint(2*w+8)))
		oc, e1 := refc.EvalFlat(cc, []*big.Int{inC})
		or, e2 := refc.EvalFlat(cr, []*big.Int{inR})
		if e1 != nil || e2 != nil {
			cs.Inconc(fmt.Sprint(e1, e2))
			return
		}
		cs.Evals++
		q, m := new(big.Int).QuoRem(a, b, new(big.Int)) // truncated toward zero, like Go and the circuit
		truth := q
		if op == "%" {
			truth = m
		}
		truth = new(big.Int).Mod(truth, mod)
		cs.Count("power_of_two_division_probes", 1)
		if oc[0].Cmp(or[0]) != 0 {
			cs.Violate("C12|folded-differs|signed-division-near-power-of-two|"+op, fmt.Sprintf("%s %s %s: folded %s, run-time circuit %s, arithmetic %s", lit(a), op, lit(b), oc[0].Text(16), or[0].Text(16), truth.Text(16)), map[string]any{"case": desc})
			return
		}
		cs.Key("pow2", T, op, a.String(), b.String())
	}
}
