package props

import (
	"bytes"
	"crypto/sha256"
	"encoding/hex"
	"fmt"
	"os"
	"os/exec"
	"path/filepath"
	"strings"
	"sync"
	"time"

	"github.com/markkurossi/mpc/circuit"
	"github.com/markkurossi/mpc/compiler"
	"github.com/markkurossi/mpc/compiler/utils"

	"verifharness/internal/mpclgen"
	"verifharness/internal/vrt"
)

// multi-import fixtures with package-level constants and variables
var c08Fixtures = []string{
	`package main

import (
	"encoding/hex"
	"strconv"
)

func main(a, b [2]byte) (string, []byte) {
	return hex.EncodeToString(a), []byte(strconv.Itoa(int32(b[0])))
}
`,
	`package main

import (
	"bytes"
	"crypto/sha256"
	"encoding/binary"
	"math"
	"math/bits"
)

const Rounds = 3
const Mask = 0x0f0f0f0f

func main(a, b [8]byte) ([32]byte, uint32, int, uint64) {
	h := sha256.Sum256(a)
	x := binary.GetUint32(b) & Mask
	for i := 0; i < Rounds; i++ {
		x = bits.RotateLeft32(x, 3) ^ binary.GetUint32(a)
	}
	return h, x, bytes.Compare(a, b), math.MaxUint64
}
`,
	`package main

import (
	"crypto/sha1"
	"encoding/hex"
	"math"
	"strconv"
)

const Bias = 11

func helper(x uint64, y uint64) uint64 {
	return math.AddUint64(x, y) + Bias
}

func main(a, b uint64) ([20]byte, uint64, uint64) {
	var d [8]byte
	for i := 0; i < 8; i++ {
		d[i] = uint8(a >> (8 * i))
	}
	return sha1.Sum(d), helper(a, b), math.MulUint64(a, b)
}
`,
	`package main

import (
	"bytes"
	"encoding/binary"
	"math"
	"math/bits"
	"strconv"
)

const A = 1
const B = A + 1
const C = B * 3

func f(x uint32) uint32 {
	return bits.RotateLeft32(x, C) + B
}

func g(x uint32) uint32 {
	return f(x) ^ f(x+A)
}

func main(a, b uint32) (uint32, uint32, bool, uint64) {
	var buf [4]byte
	buf = binary.PutUint32(buf, 0, a)
	return g(a), g(b), bytes.Equal(buf, buf), math.MaxUint64
}
`,
	// two imported packages that both have package-level variables (their
	// initialisers are emitted into the program)
	`package main

import (
	"crypto/aes"
	"encoding/hex"
)

func main(k [16]byte, d [16]byte) (string, [16]byte) {
	return hex.EncodeToString(d), aes.EncryptBlock(k, d)
}
`,
	`package main

import (
	"crypto/hkdf"
	"encoding/hex"
	"crypto/aes"
	"bytes"
)

func main(k [16]byte, d [16]byte) (string, [16]byte, int) {
	x := aes.EncryptBlock(k, d)
	return hex.EncodeToString(x), aes.DecryptBlock(k, x), bytes.Compare(k, d)
}
`,
}

type c08Program struct {
	name    string
	src     string
	pkgPath string // directory of user library packages, if any
	sizes   [][]int
}

func c08Programs() []c08Program {
	var out []c08Program
	for i, f := range c08Fixtures {
		out = append(out, c08Program{name: fmt.Sprintf("fixture%d", i), src: f})
	}
	var files []string
	for _, pat := range []string{vrt.Repo + "/testsuite/lang/*.mpcl", vrt.Repo + "/testsuite/bytes/*.mpcl", vrt.Repo + "/testsuite/math/bits/*.mpcl", vrt.Repo + "/testsuite/strconv/*.mpcl",
		vrt.Repo + "/testsuite/crypto/sha1.mpcl", vrt.Repo + "/testsuite/crypto/sha256_block.mpcl", vrt.Repo + "/testsuite/crypto/hmac_sha1.mpcl", vrt.Repo + "/testsuite/crypto/hmac_sha256.mpcl",
		vrt.Repo + "/apps/garbled/examples/millionaire.mpcl", vrt.Repo + "/apps/garbled/examples/hamming.mpcl", vrt.Repo + "/apps/garbled/examples/credit.mpcl", vrt.Repo + "/apps/garbled/examples/rps.mpcl"} {
		m, _ := filepath.Glob(pat)
		files = append(files, m...)
	}
	for _, f := range files {
		b, err := os.ReadFile(f)
		if err != nil {
			continue
		}
		p := c08Program{name: strings.TrimPrefix(f, vrt.Repo+"/"), src: string(b)}
		// input sizes of the first @Test vector (unsized arguments)
		for _, ln := range strings.Split(p.src, "\n") {
			ln = strings.TrimSpace(ln)
			if strings.HasPrefix(ln, "// @Test ") {
				parts := strings.Fields(strings.TrimPrefix(ln, "// @Test "))
				for _, part := range parts {
					if part == "=" {
						break
					}
					s, err := circuit.InputSizes(strings.Split(part, ","))
					if err == nil {
						p.sizes = append(p.sizes, s)
					}
				}
				break
			}
		}
		if p.sizes == nil && strings.Contains(p.name, "examples/") {
			p.sizes = [][]int{{64}, {64}}
		}
		out = append(out, p)
	}
	return out
}

type c08Digest struct{ circ, ssa, io string }

func (d c08Digest) String() string { return d.circ[:16] + "/" + d.ssa[:16] + "/" + d.io[:16] }

func c08Params(variant int, pkgPath ...string) *utils.Params {
	p := utils.NewParams()
	for _, d := range pkgPath {
		if d != "" {
			p.PkgPath = append(p.PkgPath, d)
		}
	}
	if variant&1 == 1 {
		p.OptPruneGates = true
	}
	if variant&2 == 2 {
		p.Target = utils.TargetGMW
	}
	return p
}

// c08Compile compiles with the given compiler instance (nil = a fresh one).
func c08Compile(cc *compiler.Compiler, params *utils.Params, src string, sizes [][]int) (c08Digest, error, *vrt.PanicInfo) {
	var d c08Digest
	var err error
	var buf bytes.Buffer
	params.SSAOut = nopCloser{&buf}
	pan := vrt.Guard(func() {
		if cc == nil {
			cc = compiler.New(params)
		}
		var c *circuit.Circuit
		c, _, err = cc.Compile(src, sizes)
		if err != nil {
			return
		}
		var cb bytes.Buffer
		if err = c.Marshal(&cb); err != nil {
			return
		}
		h := sha256.Sum256(cb.Bytes())
		d.circ = hex.EncodeToString(h[:])
		h = sha256.Sum256(buf.Bytes())
		d.ssa = hex.EncodeToString(h[:])
		h = sha256.Sum256([]byte(c.Inputs.String() + " -> " + c.Outputs.String() + fmt.Sprint(c.NumGates, c.NumWires)))
		d.io = hex.EncodeToString(h[:])
	})
	params.SSAOut = nil
	return d, err, pan
}

func init() {
	vrt.AuxCmds["c08"] = c08Aux
	vrt.Register(&vrt.Prop{
		ID: "C08", Level: "exploration",
		Rule: "case = one (program, parameter variant {default, prune, GMW, GMW+prune}): shipped test programs and examples that import library packages, three fixtures importing 5 packages each with package-level constants, and generated programs. " +
			"The triple (sha256 of Circuit.Marshal, sha256 of the SSA listing, I/O description) is collected from: k fresh Compiler instances, one instance reused after a PRNG-chosen history of other compilations including failed ones (the same and another program with an undefined name at the end of main, or a syntax error), 4 goroutines compiling concurrently, and m separate OS processes (Go randomises every map iteration per process and per range statement). " +
			"Also (every 8th generated-program slot) the command line tool as OS processes: one evaluator process serving 4-7 garbler sessions of a program with unsized arguments whose garbler input size follows a PRNG walk (repeats, the evaluator's own size right after a different one): every session must succeed and both processes must print the program's value. Oracle: exactly one distinct triple. quick: 6 in-process + 4 concurrent + 2 processes; thorough: 12 + 8 + 6. Distinct = hash(program, variant); non-trivial = it compiled.",
		Assumptions: []string{"directory order of the file system cannot be varied in this sandbox"},
		NumCases: func(t string) int {
			n := len(c08Programs())
			if t == "thorough" {
				return n*4 + 300
			}
			return n + 40
		},
		CaseTimeout: 8 * time.Minute,
		Run:         runC08,
	})
}

func runC08(cs *vrt.Case) {
	r := cs.Rng
	progs := c08Programs()
	var p c08Program
	variant := 0
	switch {
	case cs.Thorough() && cs.Idx < len(progs)*4:
		p, variant = progs[cs.Idx/4], cs.Idx%4
	case !cs.Thorough() && cs.Idx < len(progs):
		p, variant = progs[cs.Idx], cs.Idx%4
	case cs.Idx%8 == 7:
		c08CLI(cs, r)
		return
	case cs.Idx%8 == 5:
		// user library packages found through Params.PkgPath: 3-6 sibling
		// packages imported by one file, each with a package-level constant, a
		// package-level variable with an initialiser and a function that
		// interns a symbol of its own (symbol ids are handed out in the order
		// the compiler meets them)
		dir, err := os.MkdirTemp("", "c08lib-")
		if err != nil {
			cs.Inconc(err.Error())
			return
		}
		defer os.RemoveAll(dir)
		names := []string{"alpha", "bravo", "charlie", "delta", "echo", "foxtrot", "golf", "hotel"}
		for i := len(names) - 1; i > 0; i-- {
			j := r.Intn(i + 1)
			names[i], names[j] = names[j], names[i]
		}
		names = names[:r.Range(3, 6)]
		var imp, body strings.Builder
		for _, n := range names {
			os.Mkdir(filepath.Join(dir, n), 0o755)
			lib := fmt.Sprintf("// -*- go -*-\n\npackage %s\n\nconst Bias = %d\n\nvar Table = []int32{%d, %d, %d}\n\nfunc Tag() int32 {\n\treturn intern(%sTag)\n}\n\nfunc Mix(x int32) int32 {\n\treturn x*Bias + Table[%d] + intern(%sMix)\n}\n",
				n, r.Range(2, 99), r.Range(1, 999), r.Range(1, 999), r.Range(1, 999), n, r.Intn(3), n)
			// a folded operation on a literal wider than a machine word inside
			// the library (its syntax tree is cached by a reused Compiler)
			wop := vrt.Pick(r, []string{">>", "<<", "+", "-", "*", "&", "|", "^"})
			wb := fmt.Sprint(r.Range(1, 40))
			if wop != ">>" && wop != "<<" {
				wb = "uint100(0x" + r.Big(r.Range(65, 90)).Text(16) + ")"
			}
			// a type with a method (inlined once per call, its blocks are numbered per instance)
			lib += "\ntype Acc struct {\n\tV int32\n}\n\nfunc (a *Acc) Add(d int32) {\n\ta.V = a.V*3 + d\n}\n"
			lib += fmt.Sprintf("\nfunc Wide(x uint100) uint100 {\n\tk := uint100(0x%s) %s %s\n\treturn x ^ k\n}\n", r.Big(r.Range(70, 100)).Text(16), wop, wb)
			os.WriteFile(filepath.Join(dir, n, n+".mpcl"), []byte(lib), 0o644)
			fmt.Fprintf(&imp, "\t%q\n", n)
			fmt.Fprintf(&body, "\tsum = %s.Mix(sum)*b + %s.Tag()\n\twv = %s.Wide(wv)\n\tvar acc%s %s.Acc\n\tacc%s.V = sum\n\tacc%s.Add(b)\n\tacc%s.Add(a)\n\tsum = acc%s.V\n", n, n, n, n, n, n, n, n, n)
		}
		p = c08Program{name: "user-libraries", pkgPath: dir,
			src: "package main\n\nimport (\n" + imp.String() + ")\n\nfunc main(a, b int32, c uint100) (int32, uint100) {\n\tsum := a\n\twv := c\n" + body.String() + "\treturn sum + intern(mainTag), wv\n}\n"}
		variant = r.Intn(4)
		cs.Count("programs_with_user_library_packages", 1)
	case cs.Idx%8 == 3:
		// constants wider than a machine word folded at compile time. The
		// same constants (same bit lengths, same operator) in programs of
		// OTHER result types are compiled first in this process, each with
		// its own Params and Compiler: whatever the folding machinery keeps
		// per process must not reach this program's circuit, which the
		// separate processes below compile as their first and only program.
		la := vrt.Pick(r, []int{65, 70, 100, 131})
		lb := la
		if r.Bool() {
			lb = vrt.Pick(r, []int{65, 70, 100, 131})
		}
		op := vrt.Pick(r, []string{"+", "-", "*"})
		a, b := r.Big(la), r.Big(lb)
		a.SetBit(a, la-1, 1)
		b.SetBit(b, lb-1, 1)
		mk := func(w int) string {
			return fmt.Sprintf("package main\n\nconst a uint%d = 0x%s\nconst b uint%d = 0x%s\n\nfunc main(x, y uint%d) uint%d {\n\treturn x + y + (a %s b)\n}\n", w, a.Text(16), w, b.Text(16), w, w, op)
		}
		// this program's type holds the exact result; the siblings' types are
		// narrower (their result wraps) or wider
		m := max(la, lb)
		ws := []int{vrt.Pick(r, []int{la + lb + 1, 2*m + 3, m + 50}), m, m + 1, vrt.Pick(r, []int{m + 2, 2 * m, 3 * m})}
		for k, w := range ws[1:] {
			if k > 0 && r.Intn(3) == 0 {
				continue
			}
			src := mk(w)
			vrt.Guard(func() { c08Compile(nil, c08Params(r.Intn(4)), src, nil) })
			cs.Count("sibling_programs_with_the_same_wide_constants_compiled_first", 1)
		}
		p = c08Program{name: "wide-constants", src: mk(ws[0])}
		variant = r.Intn(4)
	default:
		g := mpclgen.Generate(r, mpclgen.Config{Arrays: true, Structs: true, Funcs: true, Loops: true, Division: true, Mult: true, NoConst: true})
		p = c08Program{name: "generated", src: g.Src}
		variant = r.Intn(4)
	}
	nFresh, nConc, nProc := 6, 4, 2
	if cs.Thorough() {
		nFresh, nConc, nProc = 12, 8, 6
	}
	if strings.HasPrefix(p.name, "fixture") || p.name == "user-libraries" {
		// small programs whose outcome may depend on map iteration order:
		// more repetitions
		nFresh, nProc = 3*nFresh, 2*nProc
	}
	desc := map[string]any{"program": p.name, "variant": variant, "sizes": p.sizes}
	cs.SetSample(desc)
	seen := map[string]string{}
	note := func(how string, d c08Digest, err error, pan *vrt.PanicInfo) bool {
		if pan != nil {
			if !pan.InMPC {
				cs.Inconc("harness panic: " + pan.Value)
				return false
			}
			cs.Violate("C08|compiler-panic|"+pan.Frame, fmt.Sprintf("compiling %s (%s) panicked: %s", p.name, how, pan.Value), map[string]any{"case": desc, "stack": pan.Stack})
			return false
		}
		if err != nil {
			seen["error:"+lastLine(err.Error())] = how
			return true
		}
		cs.Evals++
		seen[d.String()] = how
		return true
	}
	// fresh instances (a slow program gets fewer repetitions: the watchdog is not a verdict)
	for i := 0; i < nFresh; i++ {
		t0 := time.Now()
		d, err, pan := c08Compile(nil, c08Params(variant, p.pkgPath), p.src, p.sizes)
		if el := time.Since(t0); i == 0 && el > 2*time.Second {
			nFresh, nConc, nProc = 3, 2, 1
			if el > 20*time.Second {
				nFresh, nConc = 2, 0
			}
			cs.Count("slow_programs_with_fewer_repetitions", 1)
		}
		if !note("fresh instance", d, err, pan) {
			return
		}
		if err != nil && i == 0 {
			cs.Count("programs_not_compilable_here", 1)
			cs.Seen("not_compilable", p.name+": "+trimNum(lastLine(err.Error())))
			return
		}
	}
	// one instance reused, with a history of other compilations in between
	params := c08Params(variant, p.pkgPath)
	cc := compiler.New(params)
	for i := 0; i < 3; i++ {
		d, err, pan := c08Compile(cc, params, p.src, p.sizes)
		if !note("reused instance", d, err, pan) {
			return
		}
		other := progs[r.Intn(len(progs))]
		if len(other.src) < 4000 {
			vrt.Guard(func() { c08Compile(cc, params, other.src, other.sizes) })
		}
		// ... and failed compilations: the program itself broken at a
		// PRNG-chosen point (an undefined name at the end of main, so that
		// code generation has already run through its library calls; or a
		// syntax error), and the broken version of another program
		for _, q := range []c08Program{p, other} {
			if len(q.src) >= 4000 && q.name != p.name {
				continue
			}
			broken := c08Break(r, q.src)
			var ferr error
			vrt.Guard(func() { _, ferr, _ = c08Compile(cc, params, broken, q.sizes) })
			if ferr != nil {
				cs.Count("failed_compilations_in_history", 1)
			}
		}
	}
	// one Params object shared by several Compiler instances (as apps/garbled
	// and the repository's test suite use it), with OTHER programs compiled
	// first: whatever an earlier compilation leaves behind in the shared
	// parameters must not change this program's circuit
	for round := 0; round < 2; round++ {
		shared := c08Params(variant, p.pkgPath)
		for k := r.Range(1, 3); k > 0; k-- {
			var o c08Program
			if r.Intn(3) == 0 {
				o = progs[r.Intn(len(progs))]
				if len(o.src) >= 4000 {
					continue
				}
			} else {
				w := vrt.Pick(r, []int{8, 16, 17, 19, 21, 24, 32, 37, 40, 41, 64, 100})
				o = c08Program{name: "mult", src: fmt.Sprintf("package main\n\nfunc main(a, b uint%d) (uint%d, uint%d) {\n\treturn a * b, a / (b | 1)\n}\n", w, w, w)}
			}
			vrt.Guard(func() { c08Compile(nil, shared, o.src, o.sizes) })
			cs.Count("other_programs_compiled_first_with_shared_params", 1)
		}
		d, err, pan := c08Compile(nil, shared, p.src, p.sizes)
		if !note("new instance, shared Params after other programs", d, err, pan) {
			return
		}
	}
	// concurrent compilations
	var wg sync.WaitGroup
	var mu sync.Mutex
	type res struct {
		d   c08Digest
		err error
		pan *vrt.PanicInfo
	}
	var rs []res
	for i := 0; i < nConc; i++ {
		wg.Add(1)
		go func() {
			defer wg.Done()
			d, err, pan := c08Compile(nil, c08Params(variant, p.pkgPath), p.src, p.sizes)
			mu.Lock()
			rs = append(rs, res{d, err, pan})
			mu.Unlock()
		}()
	}
	wg.Wait()
	for _, x := range rs {
		if !note("concurrent goroutine", x.d, x.err, x.pan) {
			return
		}
	}
	// separate OS processes
	dir, err := os.MkdirTemp("", "c08-")
	if err == nil {
		defer os.RemoveAll(dir)
		f := filepath.Join(dir, "p.mpcl")
		os.WriteFile(f, []byte(p.src), 0o600)
		self, _ := os.Executable()
		var sz []string
		for _, s := range p.sizes {
			var q []string
			for _, v := range s {
				q = append(q, fmt.Sprint(v))
			}
			sz = append(sz, strings.Join(q, ","))
		}
		for i := 0; i < nProc; i++ {
			out, err := exec.Command(self, "aux", "c08", f, fmt.Sprint(variant), strings.Join(sz, ";"), p.pkgPath).Output()
			if err != nil {
				cs.Inconc(fmt.Sprintf("child compile process failed: %v", err))
				return
			}
			line := strings.TrimSpace(string(out))
			if i := strings.LastIndex(line, "DIGEST "); i >= 0 {
				seen[strings.TrimSpace(line[i+7:])] = "separate process"
				cs.Evals++
				cs.Count("separate_process_compilations", 1)
			} else {
				seen["child:"+trunc(line, 80)] = "separate process"
			}
		}
	}
	if len(seen) != 1 {
		var list []string
		for k, v := range seen {
			list = append(list, v+": "+k)
		}
		what := "circuit"
		cs.Violate("C08|nondeterministic|"+strings.Fields(p.name)[0], fmt.Sprintf("compiling %s repeatedly gave %d different (%s, SSA, I/O) results", p.name, len(seen), what), map[string]any{"case": desc, "results": list, "program": trunc(p.src, 3000)})
		return
	}
	cs.Key(p.name, fmt.Sprint(variant), fmt.Sprint(vrt.HashBytes([]byte(p.src))))
	cs.Seen("programs", p.name)
}

// c08Break makes a program fail to compile: mostly a reference to an
// undefined name in the last return statement (fails in code generation,
// after the imported packages were initialised and library functions were
// instantiated), sometimes a syntax error (fails in the parser).
func c08Break(r *vrt.Rng, src string) string {
	i := strings.LastIndex(src, "\treturn ")
	if i < 0 || r.Intn(4) == 0 {
		return src + "\nfunc broken( {\n"
	}
	return src[:i] + "\tverifUndefined = verifUndefinedName\n" + src[i:]
}

func c08Aux(args []string) int {
	pkgPath := ""
	if len(args) == 4 {
		pkgPath, args = args[3], args[:3]
	}
	if len(args) != 3 {
		return 64
	}
	src, err := os.ReadFile(args[0])
	if err != nil {
		return 5
	}
	var variant int
	fmt.Sscan(args[1], &variant)
	var sizes [][]int
	if args[2] != "" {
		for _, part := range strings.Split(args[2], ";") {
			var s []int
			for _, v := range strings.Split(part, ",") {
				var n int
				fmt.Sscan(v, &n)
				s = append(s, n)
			}
			sizes = append(sizes, s)
		}
	}
	d, err, pan := c08Compile(nil, c08Params(variant, pkgPath), string(src), sizes)
	if pan != nil {
		fmt.Println("DIGEST panic:" + pan.Value)
		return 0
	}
	if err != nil {
		fmt.Println("DIGEST error:" + lastLine(err.Error()))
		return 0
	}
	fmt.Println("DIGEST " + d.String())
	return 0
}
