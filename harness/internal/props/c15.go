package props

import (
	"crypto/aes"
	"crypto/cipher"
	"fmt"

	"github.com/markkurossi/mpc/ot"

	"verifharness/internal/otx"
	"verifharness/internal/vrt"
)

// clmul128 is the harness's own carry-less 128x128 -> 256 bit multiply
// (shift-and-xor), bit i of a polynomial = Label.Bit(i).
func clmul128(a, b ot.Label) (lo, hi ot.Label) {
	var r [4]uint64
	aw := [2]uint64{a.D0, a.D1}
	for i := 0; i < 128; i++ {
		if b.Bit(i) == 0 {
			continue
		}
		w, s := i/64, uint(i%64)
		for k := 0; k < 2; k++ {
			r[w+k] ^= aw[k] << s
			if s > 0 {
				r[w+k+1] ^= aw[k] >> (64 - s)
			}
		}
	}
	return ot.Label{D0: r[0], D1: r[1]}, ot.Label{D0: r[2], D1: r[3]}
}

func ctrStream(key ot.Label) cipher.Stream {
	var ld ot.LabelData
	blk, _ := aes.NewCipher(key.Bytes(&ld))
	var iv [16]byte
	return cipher.NewCTR(blk, iv[:])
}

type c15Out struct {
	sent, recv []ot.Label
	serr, rerr error
	pan        *vrt.PanicInfo
	chunks     []int
	labels     []ot.Label // what the sender received as seed, x, t0, t1
	recvSeed   uint64
}

// c15Run runs one fresh malicious-mode IKNP extension of n labels.
func c15Run(r *vrt.Rng, n int, b []bool, delta ot.Label, dataHook func(k int, chunk []byte), labelHook func(k int, l *ot.Label)) c15Out {
	var o c15Out
	b1, b2 := otx.NewIdealPair()
	io1, io2 := otx.NewBufIOPair()
	tio := &otx.TamperIO{IO: io1, DataHook: dataHook}
	tio.LabelHook = func(k int, l *ot.Label) {
		if labelHook != nil {
			labelHook(k, l)
		}
		o.labels = append(o.labels, *l)
	}
	o.recvSeed = r.U64()
	o.recv = make([]ot.Label, n)
	if o.recvSeed&1 == 1 {
		// a recycled destination that still holds old labels
		for i := range o.recv {
			o.recv[i] = ot.Label{D0: o.recvSeed + uint64(i), D1: ^o.recvSeed}
		}
	}
	d := &duplex{A: tio, B: io2, doneA: io1.Close, doneB: io2.Close, finish: func() {}}
	ra, rb := runPair(d, func() error {
		s, err := ot.NewIKNPSender(b1, tio, r.Fork(), &delta)
		if err != nil {
			return err
		}
		o.sent, err = s.Send(n, true)
		return err
	}, func() error {
		rc, err := ot.NewIKNPReceiver(b2, io2, vrt.NewRng(o.recvSeed))
		if err != nil {
			return err
		}
		return rc.Receive(b, o.recv, true)
	})
	o.serr, o.rerr = ra.err, rb.err
	o.pan = firstPanic(ra, rb)
	o.chunks = tio.Chunks
	return o
}

func correlationHolds(o *c15Out, b []bool, delta ot.Label) (bool, int) {
	if len(o.sent) != len(b) {
		return false, -1
	}
	for i := range b {
		want := o.sent[i]
		if b[i] {
			want.Xor(delta)
		}
		if !o.recv[i].Equal(want) {
			return false, i
		}
	}
	return true, -1
}

// c15Shadow recomputes, from the receiver's random stream alone, what an
// honest receiver must output and transmit as (x, t0, t1): an independent
// implementation of the receiver side (AES-CTR columns, bit transposition,
// chi from the seed, carry-less inner products).
func c15Shadow(seed uint64, n int, b []bool) (recv []ot.Label, x, t0, t1, seed2 ot.Label) {
	sh := vrt.NewRng(seed)
	lab := func() ot.Label {
		var d ot.LabelData
		sh.Read(d[:])
		var l ot.Label
		l.SetData(&d)
		return l
	}
	var g0 [128]cipher.Stream
	for i := 0; i < 128; i++ {
		l0 := lab()
		lab()
		g0[i] = ctrStream(l0)
	}
	rows := func(cnt int) []ot.Label {
		out := make([]ot.Label, cnt)
		for ofs := 0; ofs < cnt; {
			rws := min(512, cnt-ofs)
			br := (rws + 7) / 8
			for i := 0; i < 128; i++ {
				col := make([]byte, br)
				g0[i].XORKeyStream(col, col)
				for rw := 0; rw < rws; rw++ {
					if col[rw/8]>>uint(rw%8)&1 == 1 {
						out[ofs+rw].SetBit(i, 1)
					}
				}
			}
			ofs += rws
		}
		return out
	}
	recv = rows(n)
	bl0, bl1 := lab(), lab()
	bcv := make([]bool, 256)
	for i := range bcv {
		if i < 128 {
			bcv[i] = bl0.Bit(i) == 1
		} else {
			bcv[i] = bl1.Bit(i-128) == 1
		}
	}
	cv := rows(256)
	seed2 = lab()
	chi := ctrStream(seed2)
	next := func() ot.Label {
		var buf [16]byte
		chi.XORKeyStream(buf[:], buf[:])
		var l ot.Label
		l.SetBytes(buf[:])
		return l
	}
	acc := func(vals []ot.Label, ch []bool) {
		for j := range vals {
			c := next()
			lo, hi := clmul128(c, vals[j])
			t0.Xor(lo)
			t1.Xor(hi)
			if ch[j] {
				x.Xor(c)
			}
		}
	}
	acc(recv, b)
	acc(cv, bcv)
	return
}

func init() {
	vrt.Register(&vrt.Prop{
		ID: "C15", Level: "fault_enumeration",
		Rule: "every seventh sampled case is a strictly causal adaptive tamperer over two batches on one instance (row set with zero predicted challenge sum, computed from the previous batch's seed; see c15causal.go); every other trial is a fresh IKNPSender.Send(n,true)/IKNPReceiver.Receive over an ideal base OT with monitor-chosen Delta; an honest run first (must not abort; its receiver outputs and (x,t0,t1) are recomputed by an independent shadow receiver with its own carry-less multiplier), " +
			"then one run per fault: a single bit flip at a (column,row) of the payload or check matrix, double flips in a column, whole-column and whole-row flips, k-subsets, single bit flips of seed/x/t0/t1, single flips at every (thorough) or 128 sampled rows of batches of 600-2100 (several payload chunks and challenge blocks); paired flips of one (column,row) in a payload chunk and the check matrix or in two payload chunks; also COT-level trials. " +
			"Oracle: sender error, or correlation intact for the receiver's original choices. Non-trivial = the fault hit a column selected by Delta and a row that is used; distinct = (n, fault positions).",
		Assumptions: []string{"faults are bit flips in transit (not an adaptive adversary)", "ideal base OT (harness code)"},
		NumCases: func(t string) int {
			if t == "thorough" {
				return 16 + 64 + 176
			}
			return 56
		},
		Run: runC15,
		Finalize: func(a *vrt.Agg) error {
			if a.Counters["aborted"] == 0 || a.Counters["silent_consistent"] == 0 {
				return fmt.Errorf("did not observe both outcomes (aborted=%d silent_consistent=%d)", a.Counters["aborted"], a.Counters["silent_consistent"])
			}
			if a.Counters["honest_runs"] == 0 {
				return fmt.Errorf("no honest run")
			}
			return nil
		},
	})
}

// runC15: most cases run alone; some run as 2-3 concurrent sessions of the
// same case shape in one process (package-level state in the code under test).
func runC15(cs *vrt.Case) {
	if cs.Idx%4 == 3 {
		cs.Twins(2+(cs.Idx/7)%2, func(sub *vrt.Case, _ *vrt.Rng) { runC15One(sub) })
		return
	}
	runC15One(cs)
}

func runC15One(cs *vrt.Case) {
	r := cs.Rng
	th := cs.Thorough()
	if cs.Idx%7 == 6 && (th && cs.Idx >= 80 || !th && cs.Idx >= 16) {
		for t := 0; t < 6; t++ {
			c15Causal(cs, r)
		}
		return
	}
	var kind, part, parts int
	switch {
	case th && cs.Idx < 16:
		kind, part, parts = 0, cs.Idx, 16
	case th && cs.Idx < 80:
		kind, part, parts = 1, cs.Idx-16, 64
	case th:
		kind = 2 + (cs.Idx-80)%8
	case cs.Idx < 8:
		kind, part, parts = 0, cs.Idx, 8
	case cs.Idx < 16:
		kind, part, parts = 1, cs.Idx-8, 8
	default:
		kind = 2 + (cs.Idx-16)%8
	}
	n := 64
	if kind >= 2 {
		n = vrt.Pick(r, []int{8, 64, 100, 600, 513, 1025, 3, 7, 131, 1027, 2047})
	}
	if kind == 8 {
		n = vrt.Pick(r, []int{600, 1024, 1025, 1027, 1600, 2100, 2051})
	}
	b := choiceVec(r, n, 4)
	delta := ot.Label{D0: r.U64(), D1: r.U64()}

	// honest run
	h := c15Run(r, n, b, delta, nil, nil)
	cs.Count("honest_runs", 1)
	desc := map[string]any{"n": n, "kind": []string{"payload single flips", "check-matrix single flips", "double flips in one column", "whole column", "whole row (changed choice)", "random k-subset", "label bits (seed,x,t0,t1)", "COT level", "payload single flips in large batches", "paired flips payload+check matrix"}[kind]}
	cs.SetSample(desc)
	if h.pan != nil {
		c15Panic(cs, h.pan, desc)
		return
	}
	if h.serr != nil || h.rerr != nil {
		cs.Violate("C15|honest-abort", fmt.Sprintf("honest malicious-mode run aborted: sender=%v receiver=%v", h.serr, h.rerr), map[string]any{"case": desc})
		return
	}
	if ok, i := correlationHolds(&h, b, delta); !ok {
		cs.Violate("C15|honest-correlation", fmt.Sprintf("honest run breaks the correlation at %d", i), map[string]any{"case": desc})
		return
	}
	// shadow receiver cross-check (createLabels transposition, chi stream, CLMUL)
	srecv, x, t0, t1, seed2 := c15Shadow(h.recvSeed, n, b)
	for i := range srecv {
		if !srecv[i].Equal(h.recv[i]) {
			cs.Violate("C15|shadow-recv", fmt.Sprintf("receiver output %d differs from the independently recomputed t-matrix row", i), map[string]any{"case": desc})
			return
		}
	}
	if len(h.labels) != 4 || !h.labels[0].Equal(seed2) {
		cs.Inconc(fmt.Sprintf("shadow receiver out of sync with the receiver's random stream (labels=%d)", len(h.labels)))
		return
	}
	if !h.labels[1].Equal(x) || !h.labels[2].Equal(t0) || !h.labels[3].Equal(t1) {
		cs.Violate("C15|shadow-check-values", "transmitted (x,t0,t1) differ from the values recomputed with the harness's own carry-less multiplier", map[string]any{"case": desc,
			"x": []string{h.labels[1].String(), x.String()}, "t0": []string{h.labels[2].String(), t0.String()}, "t1": []string{h.labels[3].String(), t1.String()}})
		// the fault trials below do not depend on the shadow: keep going
	} else {
		cs.Count("shadow_crosschecks", 1)
	}
	if len(h.chunks) < 2 {
		cs.Inconc("unexpected chunk layout")
		return
	}
	nPay := len(h.chunks) - 1 // payload chunks, then one check chunk

	type flip struct{ chunk, col, row int }
	trial := func(fl []flip, lbl [][2]int, tag string) {
		hits := 0
		sel := false
		o := c15Run(r, n, b, delta, func(k int, chunk []byte) {
			for _, f := range fl {
				if f.chunk != k {
					continue
				}
				br := len(chunk) / 128
				chunk[f.col*br+f.row/8] ^= 1 << uint(f.row%8)
				hits++
				rowsHere := br * 8
				used := true
				if k < nPay {
					used = k*512+f.row < n
				}
				_ = rowsHere
				if delta.Bit(f.col) == 1 && used {
					sel = true
				}
			}
		}, func(k int, l *ot.Label) {
			for _, lb := range lbl {
				if lb[0] == k {
					l.SetBit(lb[1], 1-l.Bit(lb[1]))
					hits++
					sel = true
				}
			}
		})
		cs.Evals++
		if o.pan != nil {
			c15Panic(cs, o.pan, desc)
			return
		}
		if hits != len(fl)+len(lbl) {
			cs.Inconc(fmt.Sprintf("fault did not land: %d of %d", hits, len(fl)+len(lbl)))
			return
		}
		if sel {
			cs.Key(fmt.Sprint(n, fl, lbl))
		}
		if o.serr != nil {
			cs.Count("aborted", 1)
			if !sel {
				cs.Count("aborted_on_unselected", 1)
			}
			return
		}
		if ok, i := correlationHolds(&o, b, delta); !ok {
			cs.Violate("C15|silent-inconsistent|"+tag, fmt.Sprintf("sender accepted a tampered extension and position %d breaks the correlation (n=%d, %s)", i, n, tag),
				map[string]any{"case": desc, "flips": fmt.Sprint(fl), "label_flips": fmt.Sprint(lbl), "delta": delta.String()})
			return
		}
		cs.Count("silent_consistent", 1)
		if sel {
			cs.Count("silent_consistent_on_selected_used", 1)
		}
	}

	switch kind {
	case 0, 1:
		chunk, rowsN := 0, 64
		if kind == 1 {
			chunk, rowsN = nPay, 256
		}
		total := 128 * rowsN
		lo, hi := part*total/parts, (part+1)*total/parts
		step := 1
		if !th {
			// sample 160 positions of this part
			for i := 0; i < 160; i++ {
				p := lo + r.Intn(hi-lo)
				trial([]flip{{chunk, p / rowsN, p % rowsN}}, nil, "single")
			}
			break
		}
		for p := lo; p < hi; p += step {
			trial([]flip{{chunk, p / rowsN, p % rowsN}}, nil, "single")
		}
		cs.Count("exhaustive_positions", int64(hi-lo))
	case 2:
		for i := 0; i < 64; i++ {
			ch := r.Intn(nPay + 1)
			rowsN := 256
			if ch < nPay {
				rowsN = min(512, n-ch*512)
			}
			col := r.Intn(128)
			a, bb := r.Intn(rowsN), r.Intn(rowsN)
			if a == bb {
				continue
			}
			trial([]flip{{ch, col, a}, {ch, col, bb}}, nil, "double-in-column")
		}
	case 3:
		for i := 0; i < 32; i++ {
			ch := r.Intn(nPay + 1)
			rowsN := 256
			if ch < nPay {
				rowsN = min(512, n-ch*512)
			}
			col := r.Intn(128)
			var fl []flip
			for rw := 0; rw < rowsN; rw++ {
				fl = append(fl, flip{ch, col, rw})
			}
			trial(fl, nil, "whole-column")
		}
	case 4:
		for i := 0; i < 48; i++ {
			ch := r.Intn(nPay + 1)
			rowsN := 256
			if ch < nPay {
				rowsN = min(512, n-ch*512)
			}
			rw := r.Intn(rowsN)
			var fl []flip
			for col := 0; col < 128; col++ {
				fl = append(fl, flip{ch, col, rw})
			}
			trial(fl, nil, "whole-row")
		}
	case 5:
		for i := 0; i < 64; i++ {
			k := r.Range(2, 40)
			var fl []flip
			seen := map[flip]bool{}
			for len(fl) < k {
				ch := r.Intn(nPay + 1)
				rowsN := 256
				if ch < nPay {
					rowsN = min(512, n-ch*512)
				}
				f := flip{ch, r.Intn(128), r.Intn(rowsN)}
				if !seen[f] {
					seen[f] = true
					fl = append(fl, f)
				}
			}
			trial(fl, nil, "k-subset")
		}
	case 6:
		// every bit of seed, x, t0, t1
		for l := 0; l < 4; l++ {
			for bit := 0; bit < 128; bit++ {
				trial(nil, [][2]int{{l, bit}}, "label-bit")
			}
		}
		cs.Count("exhaustive_label_bits", 512)
	case 7:
		c15COT(cs, r, n, desc)
	case 8:
		// large batches (several 512-row payload chunks, several 1024-row
		// challenge blocks): single flips in columns selected by Delta, at
		// every row (thorough: two columns) or at 128 sampled rows
		var cols []int
		for c := 0; c < 128 && len(cols) < 2; c++ {
			if c0 := (c + r.Intn(128)) % 128; delta.Bit(c0) == 1 {
				cols = append(cols, c0)
			}
		}
		if len(cols) == 0 {
			cs.Inconc("Delta has no set bit")
			return
		}
		if th {
			for _, col := range cols {
				for row := 0; row < n; row++ {
					trial([]flip{{row / 512, col, row % 512}}, nil, "single-large-batch")
				}
			}
			cs.Count("exhaustive_rows_large_batches", int64(n*len(cols)))
			break
		}
		for i := 0; i < 128; i++ {
			row := r.Intn(n)
			if i < 16 {
				row = n - 1 - i // the last rows: partial chunk, partial block
			}
			trial([]flip{{row / 512, cols[i%len(cols)], row % 512}}, nil, "single-large-batch")
		}
	case 9:
		// the same (column, row) flipped in a payload chunk and in the check
		// matrix, and the same row in two payload chunks: contributions that
		// cancel if two rows of the check share a challenge coefficient
		for i := 0; i < 96; i++ {
			col := r.Intn(128)
			for k := 0; k < 128 && delta.Bit(col) == 0; k++ {
				col = (col + 1) % 128
			}
			ch := r.Intn(nPay)
			rowsN := min(512, n-ch*512)
			if i%3 == 2 && nPay > 1 {
				ch2 := (ch + 1 + r.Intn(nPay-1)) % nPay
				row := r.Intn(min(rowsN, min(512, n-ch2*512)))
				trial([]flip{{ch, col, row}, {ch2, col, row}}, nil, "paired-payload-payload")
				continue
			}
			row := r.Intn(min(rowsN, 256))
			trial([]flip{{ch, col, row}, {nPay, col, row}}, nil, "paired-payload-check")
		}
	}
}

func c15Panic(cs *vrt.Case, pi *vrt.PanicInfo, desc any) {
	if pi.InMPC {
		cs.Violate("C15|panic|"+pi.Frame, "IKNP panicked: "+pi.Value, map[string]any{"case": desc, "stack": pi.Stack})
	} else {
		cs.Inconc("harness panic: " + pi.Value + "\n" + pi.Stack)
	}
}

// c15COT runs the same fault idea one level up: ot.NewCOT(base, malicious=true).
func c15COT(cs *vrt.Case, r *vrt.Rng, n int, desc map[string]any) {
	for t := 0; t < 24; t++ {
		wires := randWires(r, n)
		flags := choiceVec(r, n, 4)
		got := make([]ot.Label, n)
		if t%2 == 1 {
			for i := range got {
				got[i] = ot.Label{D0: uint64(t)<<32 + uint64(i), D1: ^uint64(i)}
			}
		}
		b1, b2 := otx.NewIdealPair()
		io1, io2 := otx.NewBufIOPair()
		rot := r.Bool()
		var s, rc ot.OT
		if rot {
			s, rc = ot.NewROT(b1, r.Fork(), true, false), ot.NewROT(b2, r.Fork(), true, false)
		} else {
			s, rc = ot.NewCOT(b1, r.Fork(), true, false), ot.NewCOT(b2, r.Fork(), true, false)
		}
		honest := t == 0
		nflip := r.Range(1, 3)
		// flip rows < n in many columns so that some selected column is hit
		rowsN := min(512, n)
		row := r.Intn(rowsN)
		hits := 0
		tio := &otx.TamperIO{IO: io1}
		if !honest {
			tio.DataHook = func(k int, chunk []byte) {
				if k != 0 {
					return
				}
				br := len(chunk) / 128
				for c := 0; c < 128; c += nflip {
					chunk[c*br+row/8] ^= 1 << uint(row%8)
					hits++
				}
			}
		}
		d := &duplex{A: tio, B: io2, doneA: io1.Close, doneB: io2.Close, finish: func() {}}
		ra, rb := runPair(d, func() error {
			if err := s.InitSender(tio); err != nil {
				return err
			}
			return s.Send(wires)
		}, func() error {
			if err := rc.InitReceiver(io2); err != nil {
				return err
			}
			return rc.Receive(flags, got)
		})
		cs.Evals++
		if pi := firstPanic(ra, rb); pi != nil {
			c15Panic(cs, pi, desc)
			return
		}
		if honest {
			if ra.err != nil || rb.err != nil {
				cs.Violate("C15|honest-abort|COT", fmt.Sprintf("honest malicious-mode COT/ROT aborted: %v / %v", ra.err, rb.err), map[string]any{"case": desc})
				return
			}
			continue
		}
		if ra.err != nil {
			cs.Count("aborted", 1)
			cs.Key("cot", fmt.Sprint(n, row, nflip, rot))
			continue
		}
		for i := range wires {
			want := wires[i].L0
			if flags[i] {
				want = wires[i].L1
			}
			if !got[i].Equal(want) {
				cs.Violate("C15|silent-inconsistent|COT-level", fmt.Sprintf("malicious-mode %s accepted a tampered extension; position %d got a wrong label", map[bool]string{true: "ROT", false: "COT"}[rot], i),
					map[string]any{"case": desc, "row": row, "every": nflip})
				return
			}
		}
		cs.Count("silent_consistent", 1)
	}
}
