package props

import (
	"crypto/elliptic"
	"fmt"
	"math/big"
	"os"
	"strings"
	"time"

	"github.com/markkurossi/mpc/circuit"
	"github.com/markkurossi/mpc/ot"
	"github.com/markkurossi/mpc/sha2pc"

	"github.com/markkurossi/mpc/env"

	"verifharness/internal/otx"
	"verifharness/internal/refc"
	"verifharness/internal/vrt"
)

type c04Hit struct {
	kind     string // "offset-itself" or "label-pair"
	off, alt int
}

// scanTranscript is the offline oracle: a hash set of the 16-byte window at
// every byte offset; a hit iff R is a member or w and w xor R both are.
func scanTranscript(t []byte, R ot.Label) []c04Hit {
	if len(t) < 16 {
		return nil
	}
	var rb ot.LabelData
	R.GetData(&rb)
	m := make(map[[16]byte]int32, len(t))
	var w [16]byte
	for i := 0; i+16 <= len(t); i++ {
		copy(w[:], t[i:i+16])
		if _, ok := m[w]; !ok {
			m[w] = int32(i)
		}
	}
	var hits []c04Hit
	seen := map[[2]int]bool{}
	for i := 0; i+16 <= len(t); i++ {
		copy(w[:], t[i:i+16])
		if w == rb {
			hits = append(hits, c04Hit{"offset-itself", i, -1})
			continue
		}
		for k := range w {
			w[k] ^= rb[k]
		}
		if j, ok := m[w]; ok {
			a, b := i, int(j)
			if a > b {
				a, b = b, a
			}
			if !seen[[2]int{a, b}] {
				seen[[2]int{a, b}] = true
				hits = append(hits, c04Hit{"label-pair", a, b})
			}
		}
		if len(hits) > 2000 {
			break
		}
	}
	return hits
}

// otLabelsInClear: a wire whose two labels are handed to OT must not have
// either label elsewhere in the garbler's stream (the evaluator would hold a
// label from the clear stream and, for the other choice bit, the second label
// from the OT: their xor is R). OT payloads travel encrypted, so an honest
// transcript never contains such a label.
func otLabelsInClear(t []byte, sent [][]ot.Wire) (wire, off int, found bool) {
	m := map[[16]byte]int{}
	n := 0
	for _, batch := range sent {
		for _, w := range batch {
			var d ot.LabelData
			w.L0.GetData(&d)
			m[d] = n
			w.L1.GetData(&d)
			m[d] = n
			n++
		}
	}
	var w [16]byte
	for i := 0; i+16 <= len(t); i++ {
		copy(w[:], t[i:i+16])
		if k, ok := m[w]; ok {
			return k, i, true
		}
	}
	return 0, 0, false
}

// yaoField names the message field of a whole-circuit garbler transcript.
func yaoField(c *circuit.Circuit, off int) string {
	pos := 4 + 32
	if off < pos {
		return "garbling-key"
	}
	pos += 4
	if off < pos {
		return "gate-count"
	}
	for _, g := range c.Gates {
		n := 0
		switch g.Op {
		case circuit.AND:
			n = 2
		case circuit.OR:
			n = 3
		case circuit.INV:
			n = 1
		}
		pos += 4 + 16*n
		if off < pos {
			return "garbled-tables"
		}
	}
	pos += 16 * int(c.Inputs[0].Type.Bits)
	if off < pos {
		return "garbler-input-labels"
	}
	return "ot-and-result"
}

func sha2pcField(r1len, off int) (string, int) {
	if off < r1len {
		return "round1", -1
	}
	o := off - r1len
	bounds := []struct {
		name string
		n    int
	}{{"round3.header", 2 + 8}, {"round3.Key", 32}, {"round3.GarbledTables", 42914 * 16}, {"round3.GarblerInputs", 256 * 16}, {"round3.OutputHints", 256 * 32}, {"round3.Ciphertexts", 256 * 32}}
	for _, b := range bounds {
		if o < b.n {
			if b.name == "round3.OutputHints" {
				return b.name, o / 32
			}
			return b.name, -1
		}
		o -= b.n
	}
	return "round3.tail", -1
}

func init() {
	vrt.Register(&vrt.Prop{
		ID: "C04", Level: "exploration",
		Rule: "case = one complete session in one of three modes (plus whole-circuit sessions against a scripted peer that asks the garbler to OT a different wire range than the evaluator's inputs): whole-circuit (circuit.Garbler over a recording tap; OT in {CO, COT, COT-malicious, RSA}), streaming (Compiler.Stream) or the sha2pc round protocol (EncodeRound1 || EncodeRound3 on four curves). " +
			"R is obtained at an API boundary (xor of the two labels of the wires handed to ot.OT.Send; for sha2pc from two runs on identical randomness whose garbler inputs differ in one bit). " +
			"Oracle (offline, linear): hash set of the 16-byte window at every byte offset of the complete garbler->evaluator transcript; violation iff R is a member, or some w and w xor R both are, or a label of a wire handed to OT.Send is a member; the witness offsets are mapped to the message field. Distinct = hash of the transcript; every session is non-trivial (R is random).",
		Assumptions: []string{"the syntactic transcript property of the statement, not a simulation-based security argument", "a chance collision needs a 2^-128 event"},
		NumCases: func(t string) int {
			if t == "thorough" {
				return 900
			}
			return 96
		},
		CaseTimeout: 4 * time.Minute,
		Run:         runC04,
		Finalize: func(a *vrt.Agg) error {
			for _, m := range []string{"sessions_whole", "sessions_stream", "sessions_sha2pc"} {
				if a.Counters[m] == 0 {
					return fmt.Errorf("mode %s never ran", m)
				}
			}
			return nil
		},
	})
}

// runC04: most cases run alone; some run as concurrent sessions of the same
// case shape in one process (package-level state in the code under test).
func runC04(cs *vrt.Case) {
	if cs.Idx%12 == 7 || cs.Idx%12 == 4 {
		cs.Twins(2, func(sub *vrt.Case, _ *vrt.Rng) { runC04One(sub) })
		return
	}
	runC04One(cs)
}

func runC04One(cs *vrt.Case) {
	r := cs.Rng
	switch cs.Idx % 6 {
	case 0, 1, 2:
		if cs.Idx%12 == 2 {
			c04Deviating(cs, r)
			return
		}
		if cs.Idx%12 == 8 {
			c04Dying(cs, r, false)
			return
		}
		c04Whole(cs, r)
	case 3, 4:
		if (cs.Idx/6)%6 == 5 && cs.Idx%6 == 3 {
			c04Dying(cs, r, true)
			return
		}
		c04Stream(cs, r)
	default:
		c04Sha2pc(cs, r)
	}
}

func deltaOf(cs *vrt.Case, sent [][]ot.Wire, mode string) (ot.Label, bool) {
	var R ot.Label
	n := 0
	for _, batch := range sent {
		for _, w := range batch {
			d := w.L0
			d.Xor(w.L1)
			if n > 0 && !d.Equal(R) {
				cs.Violate("C04|"+mode+"|offset-not-global", "wires handed to OT do not share one offset", nil)
				return R, false
			}
			R = d
			n++
		}
	}
	if n == 0 {
		cs.Inconc("no wires went through the garbler's OT: R unknown")
		return R, false
	}
	return R, true
}

// c04Deviating plays the evaluator's side of the whole-circuit protocol by
// hand and asks the garbler to OT a wire range other than the evaluator's
// input wires ([n0, n0+n1)): overlapping the garbler's own input wires (whose
// labels went out in the clear), shifted by one, longer, shorter, empty. The
// garbler must refuse, or what it hands to OT.Send must stay disjoint from
// what it sent in the clear.
func c04Deviating(cs *vrt.Case, r *vrt.Rng) {
	c, what := twoPartyCircuit(cs, r, cs.Idx/6, vrt.Pick(r, []int{10, 80}))
	if c == nil {
		return
	}
	n0, n1 := int(c.Inputs[0].Type.Bits), int(c.Inputs[1].Type.Bits)
	type rng struct{ off, cnt int }
	cands := []rng{{0, n1}, {0, n0}, {0, n0 + n1}, {n0 - 1, n1}, {n0 - 1, n1 + 1}, {1, n1}, {n0, n1 - 1}, {n0, 0}, {0, 1}, {n0 / 2, n1}}
	q := cands[r.Intn(len(cands))]
	if q.off < 0 || q.cnt < 0 || (q.off == n0 && q.cnt == n1) {
		q = rng{0, n1}
	}
	x := r.Big(n0)
	otk := r.Intn(2) // CO or COT
	d := newDuplex(r, 2, true)
	d.link.Watch(20*time.Second, 2)
	gi, name := mkOT(r, otk)
	ei, _ := mkOT(r, otk)
	rec := &otx.Recorder{Inner: gi}
	cfg := &env.Config{Rand: r.Fork()}
	desc := map[string]any{"mode": "whole-circuit, deviating peer", "circuit": what, "ot": name, "x": x.Text(16), "asked_offset": q.off, "asked_count": q.cnt, "honest_offset": n0, "honest_count": n1}
	cs.SetSample(desc)
	var gerr error
	g, e := runPair(d, func() error {
		_, gerr = circuit.Garbler(cfg, d.connA, rec, c, x, false)
		return nil
	}, func() error {
		conn := d.connB
		if _, err := conn.ReceiveData(); err != nil {
			return err
		}
		ng, err := conn.ReceiveUint32()
		if err != nil {
			return err
		}
		var l ot.Label
		var ld ot.LabelData
		for i := 0; i < ng; i++ {
			k, err := conn.ReceiveUint32()
			if err != nil {
				return err
			}
			for j := 0; j < k; j++ {
				if err := conn.ReceiveLabel(&l, &ld); err != nil {
					return err
				}
			}
		}
		for i := 0; i < n0; i++ {
			if err := conn.ReceiveLabel(&l, &ld); err != nil {
				return err
			}
		}
		if err := ei.InitReceiver(conn); err != nil {
			return err
		}
		if err := conn.SendUint32(q.off); err != nil {
			return err
		}
		if err := conn.SendUint32(q.cnt); err != nil {
			return err
		}
		if err := conn.Flush(); err != nil {
			return err
		}
		if q.cnt > 0 {
			flags := make([]bool, q.cnt)
			for i := range flags {
				flags[i] = true
			}
			res := make([]ot.Label, q.cnt)
			ei.Receive(flags, res) // fails when the garbler refused: fine
		}
		return nil // runPair closes the endpoint
	})
	d.link.Stop()
	if pi := firstPanic(g, e); pi != nil {
		if pi.InMPC {
			cs.Violate("C04|deviating-peer|panic|"+pi.Frame, "panic while serving a deviating peer: "+pi.Value, map[string]any{"case": desc, "stack": pi.Stack})
		} else {
			cs.Inconc("harness panic: " + pi.Value + pi.Stack)
		}
		return
	}
	cs.Evals++
	cs.Count("sessions_deviating_peer", 1)
	t := d.link.Transcript(0)
	cs.Keys = append(cs.Keys, vrt.HashBytes(t))
	if len(rec.Sent) == 0 {
		cs.Count("deviating_requests_refused", 1)
		return
	}
	cs.Count("deviating_requests_served", 1)
	if w, off, found := otLabelsInClear(t, rec.Sent); found {
		cs.Violate("C04|whole|ot-wire-label-in-clear", fmt.Sprintf("asked to OT wires [%d,%d) instead of [%d,%d), the garbler (err=%v) handed OT.Send a wire (#%d of the batch) one of whose labels it had already sent in the clear at byte %d (%s)", q.off, q.off+q.cnt, n0, n0+n1, gerr, w, off, yaoField(c, off)), map[string]any{"case": desc})
	}
}

// c04Dying: the garbler's entropy source dies part-way through a session (a
// failing RNG device, an exhausted test vector): the garbler has to stop, and
// whatever it transmitted before must still not reveal R. A first session with
// a healthy source of the same seed yields R (key and offset are the first
// bytes drawn); the second session's source fails after a PRNG number of bytes
// beyond them. The transcript of the second session - aborted or not - is
// scanned for R and for pairs differing by R.
func c04Dying(cs *vrt.Case, r *vrt.Rng, stream bool) {
	for trial := 0; trial < 3; trial++ {
		if !c04DyingOnce(cs, r, stream) {
			return
		}
	}
}

func c04DyingOnce(cs *vrt.Case, r *vrt.Rng, stream bool) bool {
	seed := r.U64() | 1
	fail := 48 + r.Intn(16*40) // after the 32-byte key and the 16-byte offset
	var R ot.Label
	var t []byte
	var desc map[string]any
	mode := "whole"
	if !stream {
		c, what := twoPartyCircuit(cs, r, cs.Idx/6, vrt.Pick(r, []int{10, 80}))
		if c == nil {
			return true
		}
		x, y := r.Big(int(c.Inputs[0].Type.Bits)), r.Big(int(c.Inputs[1].Type.Bits))
		fail = 48 + r.Intn(16*(c.Inputs.Size()+1)) // mostly while the input wires are labelled
		if r.Intn(4) == 0 {
			fail = 48 + r.Intn(16*2*(c.Inputs.Size()+1))
		}
		otk := r.Intn(2)
		h := runYao(r, c, x, y, yaoOpts{ot: otk, kind: 2, record: true, stallWin: 30 * time.Second, randSeed: seed})
		if firstPanic(h.g, h.e) != nil || h.g.err != nil || h.e.err != nil {
			cs.Inconc("healthy session did not complete (C02's business)")
			return false
		}
		var ok bool
		if R, ok = deltaOf(cs, h.rec.Sent, "whole"); !ok {
			return false
		}
		f := runYao(r, c, x, y, yaoOpts{ot: otk, kind: 2, record: true, stallWin: 20 * time.Second, randSeed: seed, randFailAfter: fail})
		t = f.d.link.Transcript(0)
		desc = map[string]any{"mode": "whole-circuit, entropy source dies", "circuit": what, "fails_after_bytes": fail, "garbler_error": fmt.Sprint(f.g.err)}
		if f.g.err == nil && f.g.pan == nil {
			cs.Count("dying_entropy_sessions_completed_without_error", 1)
		} else {
			cs.Count("dying_entropy_sessions_aborted", 1)
		}
	} else {
		mode = "stream"
		p := c04StreamPrograms[r.Intn(4)]
		gIn, eIn := p.gIn(r), p.eIn(r)
		h := runStream(r, p.src, nil, gIn, eIn, yaoOpts{ot: 0, kind: 2, record: true, stallWin: 30 * time.Second, randSeed: seed})
		if firstPanic(h.g, h.e) != nil || h.g.err != nil || h.e.err != nil {
			cs.Inconc("healthy streaming session did not complete (C05's business)")
			return false
		}
		var ok bool
		if R, ok = deltaOf(cs, h.rec.Sent, "stream"); !ok {
			return false
		}
		f := runStream(r, p.src, nil, gIn, eIn, yaoOpts{ot: 0, kind: 2, record: true, stallWin: 20 * time.Second, randSeed: seed, randFailAfter: fail})
		t = f.d.link.Transcript(0)
		desc = map[string]any{"mode": "streaming, entropy source dies", "program": p.src, "fails_after_bytes": fail, "garbler_error": fmt.Sprint(f.g.err)}
		if f.g.err == nil && f.g.pan == nil {
			cs.Count("dying_entropy_sessions_completed_without_error", 1)
		} else {
			cs.Count("dying_entropy_sessions_aborted", 1)
		}
	}
	cs.SetSample(desc)
	cs.Evals++
	cs.Count("sessions_with_dying_entropy", 1)
	cs.Count("transcript_bytes", int64(len(t)))
	cs.Keys = append(cs.Keys, vrt.HashBytes(t)^uint64(fail))
	for _, h := range scanTranscript(t, R) {
		if h.kind == "offset-itself" {
			cs.Violate("C04|"+mode+"|R-transmitted|entropy-failure", fmt.Sprintf("after its entropy source failed (%d bytes in) the garbler transmitted its offset R at byte %d", fail, h.off), map[string]any{"case": desc})
		} else {
			cs.Violate("C04|"+mode+"|label-pair|entropy-failure", fmt.Sprintf("after its entropy source failed (%d bytes in) the garbler transmitted two values differing by R: bytes %d and %d", fail, h.off, h.alt), map[string]any{"case": desc})
		}
		break
	}
	return true
}

func c04Whole(cs *vrt.Case, r *vrt.Rng) {
	var c *circuit.Circuit
	var what string
	if (cs.Idx/6)%8 == 5 {
		// a long session: more than 2^16 gate tweaks, and input wires that
		// feed AND gates all over the circuit (per-gate uniqueness of the
		// hash tweak matters only here)
		sh := refc.Shape{Args: []int{r.Range(2, 6), r.Range(2, 6)}, Outs: []int{r.Range(1, 8)}, Gates: r.Range(48000, 90000), Kind: 4,
			Ops: []circuit.Operation{circuit.AND, circuit.AND, circuit.AND, circuit.XOR}}
		c, what = refc.Gen(r, sh), fmt.Sprintf("long hot-input circuit %v gates=%d", sh.Args, sh.Gates)
		cs.Count("long_sessions_over_65536_tweaks", 1)
	} else {
		c, what = twoPartyCircuit(cs, r, cs.Idx/6, vrt.Pick(r, []int{10, 80, 400}))
	}
	if c == nil {
		return
	}
	otk := (cs.Idx / 6) % 4
	x, y := r.Big(int(c.Inputs[0].Type.Bits)), r.Big(int(c.Inputs[1].Type.Bits))
	short := 0
	if cs.Idx%4 == 2 {
		// an entropy source that delivers its bytes in short reads
		short = []int{1, 7, 16, 255, 100}[(cs.Idx/4)%5]
		cs.Count("sessions_with_short_reading_entropy_source", 1)
	}
	o := runYao(r, c, x, y, yaoOpts{ot: otk, kind: 2, record: true, stallWin: 30 * time.Second, shortReads: short})
	desc := map[string]any{"mode": "whole-circuit", "circuit": what, "ot": o.otName, "x": x.Text(16), "y": y.Text(16)}
	cs.SetSample(desc)
	if pi := firstPanic(o.g, o.e); pi != nil || o.g.err != nil || o.e.err != nil {
		cs.Inconc(fmt.Sprintf("session did not complete (C02's business): %v %v %v", pi, o.g.err, o.e.err))
		return
	}
	R, ok := deltaOf(cs, o.rec.Sent, "whole")
	if !ok {
		return
	}
	t := o.d.link.Transcript(0)
	cs.Evals++
	cs.Count("sessions_whole", 1)
	cs.Count("transcript_bytes", int64(len(t)))
	cs.Keys = append(cs.Keys, vrt.HashBytes(t))
	cs.Seen("ot", o.otName)
	if w, off, found := otLabelsInClear(t, o.rec.Sent); found {
		cs.Violate("C04|whole|ot-wire-label-in-clear", fmt.Sprintf("a label of OT wire %d (an evaluator input) is also in the garbler's clear stream at byte %d (%s)", w, off, yaoField(c, off)), map[string]any{"case": desc})
	}
	for _, h := range scanTranscript(t, R) {
		f1 := yaoField(c, h.off)
		if h.kind == "offset-itself" {
			cs.Violate("C04|whole|R-transmitted|"+f1, fmt.Sprintf("the garbler's offset R appears in the transcript at byte %d (%s)", h.off, f1), map[string]any{"case": desc})
		} else {
			f2 := yaoField(c, h.alt)
			cs.Violate("C04|whole|label-pair|"+f1+"+"+f2, fmt.Sprintf("two transmitted values differ by R: bytes %d (%s) and %d (%s)", h.off, f1, h.alt, f2), map[string]any{"case": desc})
		}
	}
}

var c04StreamPrograms = []struct {
	src      string
	gIn, eIn func(r *vrt.Rng) []string
}{
	{twoPartyPrograms[0], func(r *vrt.Rng) []string { return []string{fmt.Sprint(r.Intn(128))} }, func(r *vrt.Rng) []string { return []string{fmt.Sprint(r.Intn(128))} }},
	{twoPartyPrograms[1], func(r *vrt.Rng) []string { return []string{fmt.Sprint(r.Intn(256))} }, func(r *vrt.Rng) []string { return []string{fmt.Sprint(r.Intn(256))} }},
	{twoPartyPrograms[4], func(r *vrt.Rng) []string { return []string{fmt.Sprint(r.Intn(65536))} }, func(r *vrt.Rng) []string { return []string{fmt.Sprint(1 + r.Intn(300))} }},
	{`package main
func main(a uint32, b uint32) (uint32, bool) {
	var s uint32
	for i := 0; i < 4; i++ {
		s = s + (a >> i) * (b | 1)
	}
	return s ^ (a << 3), a < b
}
`, func(r *vrt.Rng) []string { return []string{fmt.Sprint(r.U64() >> 32)} }, func(r *vrt.Rng) []string { return []string{fmt.Sprint(r.U64() >> 32)} }},
	// a long streaming session: 2*700*64 AND gates (more than 2^16 gate
	// tweaks), every one fed by one of 128 long-lived wires
	{`package main
func main(g [702]uint64, e uint64) uint64 {
	a := g[700] ^ e
	b := g[701]
	var s uint64
	for i := 0; i < 700; i++ {
		s = s ^ (a & g[i]) ^ (b & (g[i] >> 1))
	}
	return s
}
`, func(r *vrt.Rng) []string {
		v := "0x"
		for i := 0; i < 702; i++ {
			v += fmt.Sprintf("%016x", r.U64())
		}
		return []string{v}
	}, func(r *vrt.Rng) []string { return []string{fmt.Sprint(r.U64())} }},
	// the evaluator's input wires straddle wire id 65536
	{`package main
func main(a uint8, b [8200]uint8) (uint8, uint8) {
	return a + b[0] + b[8199], b[8191] ^ b[8192] ^ a
}
`, func(r *vrt.Rng) []string { return []string{fmt.Sprint(r.Intn(256))} }, func(r *vrt.Rng) []string {
		return []string{"0x" + fmt.Sprintf("%x", r.Bytes(8200))}
	}},
}

// clipStrings shortens very long input literals for reports (the case is
// re-derived from (seed, idx) on replay).
func clipStrings(in []string) []string {
	out := make([]string, len(in))
	for i, s := range in {
		if len(s) > 160 {
			s = fmt.Sprintf("%s...(%d chars, hash %x)", s[:160], len(s), vrt.HashBytes([]byte(s)))
		}
		out[i] = s
	}
	return out
}

func c04Stream(cs *vrt.Case, r *vrt.Rng) {
	// families by (Idx/6)%6: 0,3 the fixed programs (in turn); 1,4 native circuits; 2,5 operator-then-AND
	fam := (cs.Idx / 6) % 6
	p := c04StreamPrograms[(cs.Idx/6/3+cs.Idx%2)%len(c04StreamPrograms)]
	gIn, eIn := p.gIn(r), p.eIn(r)
	src, srcName := p.src, ""
	var progDesc any = (cs.Idx/6/3 + cs.Idx%2) % len(c04StreamPrograms)
	if fam == 2 || fam == 5 {
		// "operator then AND" family: the result of one operator or builtin (every
		// streamed builder writes straight into its output wires) feeds AND gates:
		// a result wire the builder left undriven, or drove with a degenerate
		// label pair, shows in the rows of those gates
		W := vrt.Pick(r, []int{8, 16, 32, 64})
		ops := []string{"binary.HammingDistance(a, b)", "a * b", "a / (b | 1)", "a - b", fmt.Sprintf("a << %d", r.Range(1, W-1)), "a &^ b", "-a", "a % (b | 1)",
			"a + b", fmt.Sprintf("a >> %d", r.Range(1, W-1)), "a | b", "a ^ b", "a + 1"}
		op := ops[(cs.Idx/36*2+cs.Idx%2)%len(ops)] // every operator in turn
		imp := ""
		if strings.Contains(op, "binary.") {
			imp = "import (\n\t\"encoding/binary\"\n)\n\n"
		}
		src = fmt.Sprintf("package main\n\n%sfunc main(a uint%d, b uint%d) (uint%d, uint%d, uint%d) {\n\td := %s\n\tvar e uint%d\n\tif a > b {\n\t\te = d\n\t} else {\n\t\te = b\n\t}\n\treturn d & b, d * (b | 1), e\n}\n", imp, W, W, W, W, W, op, W)
		gIn, eIn = []string{"0x" + r.Big(W).Text(16)}, []string{"0x" + r.Big(W).Text(16)}
		progDesc = "operator-then-AND family: " + op
		cs.Count("sessions_stream_operator_then_and", 1)
		cs.Seen("operators_streamed_into_and_gates", strings.Fields(strings.ReplaceAll(op, "(", " "))[0]+" "+op)
	} else if fam == 1 || fam == 4 {
		// a program around a harness-generated native circuit file (all five
		// gate types, outputs that feed later gates), see c05NativeProgram
		dir, file, nsrc, g, e, err := c05NativeProgram(r)
		if dir != "" {
			defer os.RemoveAll(dir)
		}
		if err != nil {
			cs.Inconc("native family: " + err.Error())
			return
		}
		src, srcName, gIn, eIn, progDesc = nsrc, file, g, e, "native-circuit family: "+nsrc
		cs.Count("sessions_stream_native_circuit", 1)
	}
	short := 0
	if cs.Idx%4 == 1 {
		// an entropy source that delivers its bytes in short reads
		short = []int{255, 1, 16, 100, 7}[(cs.Idx/4)%5]
		cs.Count("sessions_with_short_reading_entropy_source", 1)
	}
	o := runStream(r, src, nil, gIn, eIn, yaoOpts{ot: (cs.Idx / 6) % 3, kind: 2, record: true, stallWin: 30 * time.Second, srcName: srcName, shortReads: short})
	desc := map[string]any{"mode": "streaming", "program": progDesc, "ot": o.otName, "g": clipStrings(gIn), "e": clipStrings(eIn)}
	cs.SetSample(desc)
	if pi := firstPanic(o.g, o.e); pi != nil || o.g.err != nil || o.e.err != nil {
		// what was transmitted before the failure has been transmitted:
		// the leak oracles apply to an aborted session as well
		if len(o.rec.Sent) > 0 {
			t := o.d.link.Transcript(0)
			if w, off, found := otLabelsInClear(t, o.rec.Sent); found {
				cs.Violate("C04|stream|ot-wire-label-in-clear", fmt.Sprintf("aborted session: a label of OT wire %d (an evaluator input) is also in the garbler's clear stream at byte %d of %d", w, off, len(t)), map[string]any{"case": desc})
				return
			}
		}
		cs.Inconc(fmt.Sprintf("streaming session did not complete (C05's business): %v %v %v", pi, o.g.err, o.e.err))
		return
	}
	R, ok := deltaOf(cs, o.rec.Sent, "stream")
	if !ok {
		return
	}
	t := o.d.link.Transcript(0)
	cs.Evals++
	cs.Count("sessions_stream", 1)
	cs.Count("transcript_bytes", int64(len(t)))
	cs.Keys = append(cs.Keys, vrt.HashBytes(t))
	if w, off, found := otLabelsInClear(t, o.rec.Sent); found {
		cs.Violate("C04|stream|ot-wire-label-in-clear", fmt.Sprintf("a label of OT wire %d (an evaluator input) is also in the garbler's clear stream at byte %d of %d", w, off, len(t)), map[string]any{"case": desc})
	}
	for _, h := range scanTranscript(t, R) {
		if h.kind == "offset-itself" {
			cs.Violate("C04|stream|R-transmitted", fmt.Sprintf("the garbler's offset R appears in the streaming transcript at byte %d", h.off), map[string]any{"case": desc})
		} else {
			cs.Violate("C04|stream|label-pair", fmt.Sprintf("two streamed values differ by R: bytes %d and %d of %d", h.off, h.alt, len(t)), map[string]any{"case": desc})
		}
	}
}

func c04Sha2pc(cs *vrt.Case, r *vrt.Rng) {
	cv := []elliptic.Curve{elliptic.P224(), elliptic.P256(), elliptic.P256(), elliptic.P384(), elliptic.P521()}[(cs.Idx/6)%5]
	if !cs.Thorough() {
		cv = []elliptic.Curve{elliptic.P224(), elliptic.P256()}[(cs.Idx/6)%2]
	}
	a, b := c18Input(r), c18Input(r)
	seed := r.U64()
	desc := map[string]any{"mode": "sha2pc", "curve": cv.Params().Name}
	cs.SetSample(desc)
	var base c18Run
	var R ot.Label
	var err error
	pi := vrt.Guard(func() {
		base = c18Protocol(cv, seed, a, b, 0)
		if base.err != nil {
			return
		}
		// second garbler run on identical randomness, garbler input differing in bit 0
		gs, e1 := sha2pc.DecodeGarblerSession(cv, base.gsb)
		m2, e2 := sha2pc.DecodeRound2(cv, base.r2b)
		if e1 != nil || e2 != nil {
			err = fmt.Errorf("%v %v", e1, e2)
			return
		}
		a2 := a
		a2[0] ^= 1
		m3a, e3 := sha2pc.GarblerRound3(vrt.Derive(seed, "g3", 0), cv, gs, a, m2)
		m3b, e4 := sha2pc.GarblerRound3(vrt.Derive(seed, "g3", 0), cv, gs, a2, m2)
		if e3 != nil || e4 != nil {
			err = fmt.Errorf("%v %v", e3, e4)
			return
		}
		R = m3a.GarblerInputs[0]
		R.Xor(m3b.GarblerInputs[0])
		for i := 1; i < len(m3a.GarblerInputs); i++ {
			if !m3a.GarblerInputs[i].Equal(m3b.GarblerInputs[i]) {
				err = fmt.Errorf("garbler runs on identical randomness differ at label %d", i)
			}
		}
	})
	if pi != nil || base.err != nil || err != nil {
		cs.Inconc(fmt.Sprintf("sha2pc run did not complete (C18's business): %v %v %v", pi, base.err, err))
		return
	}
	if (R == ot.Label{}) || !R.S() {
		cs.Inconc("could not derive R (label difference is zero or has no permute bit)")
		return
	}
	t := append(append([]byte(nil), base.r1b...), base.r3b...)
	cs.Evals++
	cs.Count("sessions_sha2pc", 1)
	cs.Count("transcript_bytes", int64(len(t)))
	cs.Keys = append(cs.Keys, vrt.HashBytes(t))
	for _, h := range scanTranscript(t, R) {
		f1, k1 := sha2pcField(len(base.r1b), h.off)
		if h.kind == "offset-itself" {
			cs.Violate("C04|sha2pc|R-transmitted|"+f1, fmt.Sprintf("R appears at byte %d (%s)", h.off, f1), map[string]any{"case": desc})
			continue
		}
		f2, k2 := sha2pcField(len(base.r1b), h.alt)
		key := "C04|sha2pc|label-pair|" + f1 + "+" + f2
		if f1 == "round3.OutputHints" && f2 == f1 {
			if k1 == k2 {
				key += "|same-hint"
			} else {
				key += "|different-hints"
			}
		}
		cs.Violate(key, fmt.Sprintf("two transmitted values differ by R: byte %d (%s[%d]) and byte %d (%s[%d])", h.off, f1, k1, h.alt, f2, k2), map[string]any{"case": desc})
	}
	_ = big.NewInt
}
