package props

import (
	"bytes"
	"crypto/elliptic"
	"crypto/sha256"
	"encoding/binary"
	"encoding/hex"
	"fmt"
	"os"
	"os/exec"
	"path/filepath"
	"reflect"
	"runtime"
	"sync"

	"github.com/markkurossi/mpc/ot"
	"github.com/markkurossi/mpc/sha2pc"

	"verifharness/internal/vrt"
)

var c18Curves = []elliptic.Curve{elliptic.P224(), elliptic.P256(), elliptic.P384(), elliptic.P521()}

// encoded sizes per curve: round1, round2, garbler session, evaluator session
// (P-256 as pinned by the repository's suite; the others as documented by the
// same layout with the curve's field length), round3 is curve independent.
var c18Sizes = map[string][4]int{
	"P-224": {72, 7216, 158, 7274},
	"P-256": {80, 8240, 178, 8306},
	"P-384": {112, 12336, 258, 12434},
	"P-521": {148, 16944, 348, 17079},
}

const c18Round3Size = 707146

type c18Run struct {
	r1b, gsb, r2b, esb, r3b []byte
	digest                  [32]byte
	err                     error
	stage                   string
}

// c18Protocol runs the four rounds with deterministic per-round randomness;
// mask bit i = object i goes through encode->decode before its next use
// (0 round-1 message, 1 garbler session, 2 round-2 message, 3 evaluator
// session, 4 round-3 message).
func c18Protocol(cv elliptic.Curve, seed uint64, a, b [32]byte, mask int) (o c18Run) {
	fail := func(stage string, err error) c18Run { o.stage, o.err = stage, err; return o }
	m1, gs, err := sha2pc.GarblerRound1(vrt.Derive(seed, "g1", 0), cv)
	if err != nil {
		return fail("GarblerRound1", err)
	}
	if o.r1b, err = sha2pc.EncodeRound1(cv, m1); err != nil {
		return fail("EncodeRound1", err)
	}
	if o.gsb, err = sha2pc.EncodeGarblerSession(cv, gs); err != nil {
		return fail("EncodeGarblerSession", err)
	}
	if mask&1 != 0 {
		if m1, err = sha2pc.DecodeRound1(cv, o.r1b); err != nil {
			return fail("DecodeRound1", err)
		}
	}
	if mask&2 != 0 {
		if gs, err = sha2pc.DecodeGarblerSession(cv, o.gsb); err != nil {
			return fail("DecodeGarblerSession", err)
		}
	}
	m2, es, err := sha2pc.EvaluatorRound2(vrt.Derive(seed, "e2", 0), cv, m1, b)
	if err != nil {
		return fail("EvaluatorRound2", err)
	}
	if o.r2b, err = sha2pc.EncodeRound2(cv, m2); err != nil {
		return fail("EncodeRound2", err)
	}
	if o.esb, err = sha2pc.EncodeEvaluatorSession(cv, es); err != nil {
		return fail("EncodeEvaluatorSession", err)
	}
	if mask&4 != 0 {
		if m2, err = sha2pc.DecodeRound2(cv, o.r2b); err != nil {
			return fail("DecodeRound2", err)
		}
	}
	if mask&8 != 0 {
		if es, err = sha2pc.DecodeEvaluatorSession(cv, o.esb); err != nil {
			return fail("DecodeEvaluatorSession", err)
		}
	}
	m3, err := sha2pc.GarblerRound3(vrt.Derive(seed, "g3", 0), cv, gs, a, m2)
	if err != nil {
		return fail("GarblerRound3", err)
	}
	if o.r3b, err = sha2pc.EncodeRound3(m3); err != nil {
		return fail("EncodeRound3", err)
	}
	if mask&16 != 0 {
		if m3, err = sha2pc.DecodeRound3(o.r3b); err != nil {
			return fail("DecodeRound3", err)
		}
	}
	o.digest, err = sha2pc.EvaluatorRound4(cv, es, m3)
	if err != nil {
		return fail("EvaluatorRound4", err)
	}
	return o
}

func c18Input(r *vrt.Rng) (v [32]byte) {
	switch r.Intn(6) {
	case 0:
	case 1:
		for i := range v {
			v[i] = 0xff
		}
	case 2:
		v[0] = 1
	case 3:
		v[31] = 0x80
	default:
		r.Read(v[:])
	}
	return
}

func xor32(a, b [32]byte) (c [32]byte) {
	for i := range a {
		c[i] = a[i] ^ b[i]
	}
	return
}

func init() {
	vrt.AuxCmds["c18"] = c18Aux
	vrt.Register(&vrt.Prop{
		ID: "C18", Level: "exploration",
		Rule: "kinds of case: (A) protocol run on a curve (weighted P-224:P-256:P-384:P-521 = 8:8:1:1) with boundary/random (a,b): digest == SHA-256(a xor b); the same run repeated with 4 of the 32 encode->decode subsets of the five persisted objects under identical per-round randomness: digest and round-3 bytes must be identical; fixed encoded sizes per curve; decode(encode(m)) deep-equals m. " +
			"(B) every round in its own OS process exchanging only files; 2-4 sessions alive in one process advanced in a PRNG interleaving (round 3 optionally in parallel goroutines) with the round-3 message re-encoded just before use. (C) rejection: messages/sessions of another session id or curve are rejected by the consuming round/decoder; every truncation (all prefixes of the small encodings, sampled for round 3) is rejected; byte/bit mutations and extensions never panic a decoder nor, when accepted, the consuming round. Distinct = (curve, inputs, subset) / hash of the mutated bytes.",
		Assumptions: []string{"crypto/sha256 is the reference for the digest"},
		NumCases: func(t string) int {
			if t == "thorough" {
				return 600
			}
			return 72
		},
		MaxWorkers: 16,
		Run:        runC18,
	})
}

func c18Curve(idx int) elliptic.Curve {
	switch k := idx % 18; {
	case k < 8:
		return c18Curves[0]
	case k < 16:
		return c18Curves[1]
	case k == 16:
		return c18Curves[2]
	default:
		return c18Curves[3]
	}
}

func runC18(cs *vrt.Case) {
	r := cs.Rng
	cv := c18Curve(cs.Idx / 3)
	switch cs.Idx % 3 {
	case 0:
		c18Resume(cs, r, cv)
	case 1:
		if cs.Idx%12 == 1 {
			c18Processes(cs, r, c18Curves[(cs.Idx/12)%2])
		} else if cs.Idx%12 == 7 || cs.Idx%12 == 10 {
			c18Interleaved(cs, r, c18Curves[(cs.Idx/12)%2])
		} else {
			c18Resume(cs, r, cv)
		}
	default:
		c18Reject(cs, r, cv)
	}
}

func c18Resume(cs *vrt.Case, r *vrt.Rng, cv elliptic.Curve) {
	a, b := c18Input(r), c18Input(r)
	seed := r.U64()
	name := cv.Params().Name
	desc := map[string]any{"kind": "protocol+resume", "curve": name, "a": hex.EncodeToString(a[:]), "b": hex.EncodeToString(b[:])}
	cs.SetSample(desc)
	var base c18Run
	if pi := vrt.Guard(func() { base = c18Protocol(cv, seed, a, b, 0) }); pi != nil {
		cs.Violate("C18|panic|"+pi.Frame, "protocol panicked: "+pi.Value, map[string]any{"case": desc, "stack": pi.Stack})
		return
	}
	cs.Evals++
	if base.err != nil {
		cs.Violate("C18|protocol-error|"+base.stage, "honest protocol failed in "+base.stage+": "+base.err.Error(), map[string]any{"case": desc})
		return
	}
	want := sha256.Sum256(func() []byte { x := xor32(a, b); return x[:] }())
	if base.digest != want {
		cs.Violate("C18|wrong-digest", fmt.Sprintf("evaluator output %x, SHA-256(a xor b) = %x", base.digest, want), map[string]any{"case": desc})
		return
	}
	cs.Key("run", name, hex.EncodeToString(a[:]), hex.EncodeToString(b[:]))
	cs.Seen("curves", name)
	// sizes
	sz := c18Sizes[name]
	got := [4]int{len(base.r1b), len(base.r2b), len(base.gsb), len(base.esb)}
	if got != sz || len(base.r3b) != c18Round3Size {
		cs.Violate("C18|encoded-size|"+name, fmt.Sprintf("encoded sizes %v/%d differ from the fixed sizes %v/%d", got, len(base.r3b), sz, c18Round3Size), map[string]any{"case": desc})
	}
	// encode-decode identity
	c18Identity(cs, cv, &base, desc)
	// resumability
	for k := 0; k < 4; k++ {
		mask := 1 + (cs.Idx/3*4+k)%31
		var o c18Run
		if pi := vrt.Guard(func() { o = c18Protocol(cv, seed, a, b, mask) }); pi != nil {
			cs.Violate("C18|panic|"+pi.Frame, "protocol panicked after restore: "+pi.Value, map[string]any{"case": desc, "mask": mask, "stack": pi.Stack})
			return
		}
		cs.Evals++
		cs.Seen("restart_subsets", fmt.Sprintf("%05b", mask))
		switch {
		case o.err != nil:
			cs.Violate("C18|resume-error|"+o.stage, fmt.Sprintf("continuing from decoded copies (subset %05b) failed in %s: %v", mask, o.stage, o.err), map[string]any{"case": desc})
			return
		case o.digest != base.digest:
			cs.Violate("C18|resume-digest", fmt.Sprintf("continuing from decoded copies (subset %05b) changed the digest", mask), map[string]any{"case": desc})
			return
		case !bytes.Equal(o.r3b, base.r3b) || !bytes.Equal(o.r2b, base.r2b):
			cs.Violate("C18|resume-transcript", fmt.Sprintf("continuing from decoded copies (subset %05b) changed the transcript under identical randomness", mask), map[string]any{"case": desc})
			return
		}
		cs.Key("resume", name, fmt.Sprint(seed, mask))
	}
}

func c18Identity(cs *vrt.Case, cv elliptic.Curve, base *c18Run, desc any) {
	check := func(what string, enc []byte, dec func([]byte) (any, error), reenc func(any) ([]byte, error)) {
		v, err := dec(enc)
		if err != nil {
			cs.Violate("C18|identity-decode|"+what, what+": decoding a fresh encoding failed: "+err.Error(), map[string]any{"case": desc})
			return
		}
		e2, err := reenc(v)
		if err != nil || !bytes.Equal(e2, enc) {
			cs.Violate("C18|identity|"+what, what+": encode(decode(x)) != x", map[string]any{"case": desc})
			return
		}
		v2, _ := dec(e2)
		if !reflect.DeepEqual(v, v2) {
			cs.Violate("C18|identity|"+what, what+": decode is not a function of the bytes", map[string]any{"case": desc})
		}
		cs.Evals++
	}
	check("round1", base.r1b, func(b []byte) (any, error) { return sha2pc.DecodeRound1(cv, b) }, func(v any) ([]byte, error) { return sha2pc.EncodeRound1(cv, v.(sha2pc.Round1Payload)) })
	check("round2", base.r2b, func(b []byte) (any, error) { return sha2pc.DecodeRound2(cv, b) }, func(v any) ([]byte, error) { return sha2pc.EncodeRound2(cv, v.(sha2pc.Round2Payload)) })
	check("round3", base.r3b, func(b []byte) (any, error) { return sha2pc.DecodeRound3(b) }, func(v any) ([]byte, error) { return sha2pc.EncodeRound3(v.(sha2pc.Round3Payload)) })
	check("garbler-session", base.gsb, func(b []byte) (any, error) { return sha2pc.DecodeGarblerSession(cv, b) }, func(v any) ([]byte, error) { return sha2pc.EncodeGarblerSession(cv, v.(*sha2pc.GarblerSession)) })
	check("evaluator-session", base.esb, func(b []byte) (any, error) { return sha2pc.DecodeEvaluatorSession(cv, b) }, func(v any) ([]byte, error) { return sha2pc.EncodeEvaluatorSession(cv, v.(*sha2pc.EvaluatorSession)) })
}

// c18Reject: other session / other curve / truncations / mutations.
func c18Reject(cs *vrt.Case, r *vrt.Rng, cv elliptic.Curve) {
	name := cv.Params().Name
	a, b := c18Input(r), c18Input(r)
	desc := map[string]any{"kind": "rejection", "curve": name}
	cs.SetSample(desc)
	var s1, s2 c18Run
	if pi := vrt.Guard(func() { s1 = c18Protocol(cv, r.U64(), a, b, 0); s2 = c18Protocol(cv, r.U64(), b, a, 0) }); pi != nil {
		cs.Violate("C18|panic|"+pi.Frame, "protocol panicked: "+pi.Value, map[string]any{"stack": pi.Stack})
		return
	}
	if s1.err != nil || s2.err != nil {
		cs.Violate("C18|protocol-error", fmt.Sprint("honest protocol failed: ", s1.err, s2.err), nil)
		return
	}
	// consume(kind, bytes) decodes and, if accepted, feeds the consuming round of session 1.
	type res struct {
		rejected bool
		stage    string
	}
	consume := func(kind int, data []byte, curve elliptic.Curve) (out res, pan *vrt.PanicInfo) {
		pan = vrt.Guard(func() {
			// fresh copies of what the consuming round needs besides the object under test
			var gs *sha2pc.GarblerSession
			var es *sha2pc.EvaluatorSession
			var m2 sha2pc.Round2Payload
			var m3 sha2pc.Round3Payload
			switch kind {
			case 1:
				gs, _ = sha2pc.DecodeGarblerSession(cv, s1.gsb)
			case 2:
				es, _ = sha2pc.DecodeEvaluatorSession(cv, s1.esb)
			case 3:
				m2, _ = sha2pc.DecodeRound2(cv, s1.r2b)
			case 4:
				m3, _ = sha2pc.DecodeRound3(s1.r3b)
			}
			switch kind {
			case 0: // round1 -> EvaluatorRound2
				m, err := sha2pc.DecodeRound1(curve, data)
				if err != nil {
					out = res{true, "DecodeRound1"}
					return
				}
				if _, _, err = sha2pc.EvaluatorRound2(r.Fork(), curve, m, b); err != nil {
					out = res{true, "EvaluatorRound2"}
				}
			case 1: // round2 -> GarblerRound3
				m, err := sha2pc.DecodeRound2(curve, data)
				if err != nil {
					out = res{true, "DecodeRound2"}
					return
				}
				if _, err = sha2pc.GarblerRound3(r.Fork(), curve, gs, a, m); err != nil {
					out = res{true, "GarblerRound3"}
				}
			case 2: // round3 -> EvaluatorRound4
				m, err := sha2pc.DecodeRound3(data)
				if err != nil {
					out = res{true, "DecodeRound3"}
					return
				}
				if _, err = sha2pc.EvaluatorRound4(curve, es, m); err != nil {
					out = res{true, "EvaluatorRound4"}
				}
			case 3: // garbler session -> GarblerRound3
				g, err := sha2pc.DecodeGarblerSession(curve, data)
				if err != nil {
					out = res{true, "DecodeGarblerSession"}
					return
				}
				if _, err = sha2pc.GarblerRound3(r.Fork(), curve, g, a, m2); err != nil {
					out = res{true, "GarblerRound3"}
				}
			case 4: // evaluator session -> EvaluatorRound4
				e, err := sha2pc.DecodeEvaluatorSession(curve, data)
				if err != nil {
					out = res{true, "DecodeEvaluatorSession"}
					return
				}
				if _, err = sha2pc.EvaluatorRound4(curve, e, m3); err != nil {
					out = res{true, "EvaluatorRound4"}
				}
			}
		})
		return
	}
	kinds := []string{"round1", "round2", "round3", "garbler-session", "evaluator-session"}
	objs1 := [][]byte{s1.r1b, s1.r2b, s1.r3b, s1.gsb, s1.esb}
	objs2 := [][]byte{s2.r1b, s2.r2b, s2.r3b, s2.gsb, s2.esb}
	// other session id: round2, round3, both sessions must be refused by the round that consumes them
	for _, k := range []int{1, 2, 3, 4} {
		out, pan := consume(k, objs2[k], cv)
		cs.Evals++
		if pan != nil {
			cs.Violate("C18|panic|"+pan.Frame, "foreign-session "+kinds[k]+" panicked: "+pan.Value, map[string]any{"stack": pan.Stack})
		} else if !out.rejected {
			cs.Violate("C18|foreign-session-accepted|"+kinds[k], kinds[k]+" of another session was accepted by the consuming round", map[string]any{"case": desc})
		} else {
			cs.Count("foreign_session_rejected", 1)
		}
		cs.Key("foreign", name, kinds[k], fmt.Sprint(cs.Idx))
	}
	// a session id that differs from this session's in ONE bit (each of the 64
	// positions over the cases, a few per case): the message or state is this
	// session's own, decoded, given the neighbouring id and encoded again - by
	// its id it belongs to another session and the consuming round must refuse it
	for t := 0; t < 6; t++ {
		bit := uint((cs.Idx*6 + t) % 64)
		if t >= 4 {
			bit = 32 + uint(r.Intn(32))
		}
		k := []int{1, 2, 3, 4}[(cs.Idx+t)%4]
		var enc []byte
		var eerr error
		switch k {
		case 1:
			m, err := sha2pc.DecodeRound2(cv, s1.r2b)
			if err != nil {
				continue
			}
			m.SessionID ^= 1 << bit
			enc, eerr = sha2pc.EncodeRound2(cv, m)
		case 2:
			m, err := sha2pc.DecodeRound3(s1.r3b)
			if err != nil {
				continue
			}
			m.SessionID ^= 1 << bit
			enc, eerr = sha2pc.EncodeRound3(m)
		case 3:
			g, err := sha2pc.DecodeGarblerSession(cv, s1.gsb)
			if err != nil {
				continue
			}
			g.SessionID ^= 1 << bit
			enc, eerr = sha2pc.EncodeGarblerSession(cv, g)
		case 4:
			e, err := sha2pc.DecodeEvaluatorSession(cv, s1.esb)
			if err != nil {
				continue
			}
			e.SessionID ^= 1 << bit
			enc, eerr = sha2pc.EncodeEvaluatorSession(cv, e)
		}
		if eerr != nil {
			continue
		}
		out, pan := consume(k, enc, cv)
		cs.Evals++
		if pan != nil {
			cs.Violate("C18|panic|"+pan.Frame, "neighbouring-session "+kinds[k]+" panicked: "+pan.Value, map[string]any{"stack": pan.Stack})
		} else if !out.rejected {
			cs.Violate("C18|foreign-session-accepted|"+kinds[k], fmt.Sprintf("%s whose session id differs from this session's in bit %d only was accepted by the consuming round", kinds[k], bit), map[string]any{"case": desc})
		} else {
			cs.Count("neighbouring_session_id_rejected", 1)
		}
	}
	// other curve: decoders (and rounds) given another curve's objects
	other := c18Curves[(cs.Idx/3+1+r.Intn(3))%4]
	if other.Params().Name != name {
		for _, k := range []int{0, 1, 3, 4} {
			out, pan := consume(k, objs1[k], other)
			cs.Evals++
			if pan != nil {
				cs.Violate("C18|panic|"+pan.Frame, "other-curve "+kinds[k]+" panicked: "+pan.Value, map[string]any{"stack": pan.Stack})
			} else if !out.rejected {
				cs.Violate("C18|foreign-curve-accepted|"+kinds[k], fmt.Sprintf("%s encoded for %s was accepted when decoding for %s", kinds[k], name, other.Params().Name), map[string]any{"case": desc})
			} else {
				cs.Count("foreign_curve_rejected", 1)
			}
		}
	}
	// truncations
	exhaustive := cs.Thorough() && (name == "P-256" || name == "P-224")
	for k, enc := range objs1 {
		var cuts []int
		switch {
		case k == 2:
			for i := 0; i < 24; i++ {
				cuts = append(cuts, r.Intn(len(enc)))
			}
			cuts = append(cuts, 0, 1, 2, 10, len(enc)-1, len(enc)-16, len(enc)-8192)
		case exhaustive || len(enc) < 400:
			for n := 0; n < len(enc); n++ {
				cuts = append(cuts, n)
			}
			cs.Count("exhaustive_truncation_sweeps", 1)
		default:
			for i := 0; i < 60; i++ {
				cuts = append(cuts, r.Intn(len(enc)))
			}
			cuts = append(cuts, 0, 1, 2, 9, 10, 11, len(enc)-1, len(enc)-2, len(enc)-32, len(enc)-33)
		}
		for _, n := range cuts {
			if n < 0 || n >= len(enc) {
				continue
			}
			var rejected bool
			pan := vrt.Guard(func() {
				var err error
				switch k {
				case 0:
					_, err = sha2pc.DecodeRound1(cv, enc[:n])
				case 1:
					_, err = sha2pc.DecodeRound2(cv, enc[:n])
				case 2:
					_, err = sha2pc.DecodeRound3(enc[:n])
				case 3:
					_, err = sha2pc.DecodeGarblerSession(cv, enc[:n])
				case 4:
					_, err = sha2pc.DecodeEvaluatorSession(cv, enc[:n])
				}
				rejected = err != nil
			})
			cs.Evals++
			cs.Keys = append(cs.Keys, vrt.Hash64("trunc", name, kinds[k], fmt.Sprint(n, cs.Idx)))
			if pan != nil {
				cs.Violate("C18|decoder-panic|"+kinds[k]+"|"+pan.Frame, fmt.Sprintf("decoder panicked on %s truncated to %d bytes: %s", kinds[k], n, pan.Value), map[string]any{"stack": pan.Stack})
			} else if !rejected {
				cs.Violate("C18|truncation-accepted|"+kinds[k], fmt.Sprintf("%s truncated from %d to %d bytes was accepted", kinds[k], len(enc), n), map[string]any{"case": desc})
			} else {
				cs.Count("truncations_rejected", 1)
			}
		}
	}
	// mutations and extensions: no panic anywhere
	nmut := 40
	if cs.Thorough() {
		nmut = 120
	}
	for i := 0; i < nmut; i++ {
		k := r.Intn(5)
		if k == 2 && r.Intn(4) != 0 {
			k = r.Intn(2) * 3
		}
		d := append([]byte(nil), objs1[k]...)
		mut := r.Intn(5)
		switch mut {
		case 0:
			p := r.Intn(len(d) * 8)
			d[p/8] ^= 1 << uint(p%8)
		case 1:
			d[r.Intn(len(d))] = byte(r.U64())
		case 2:
			for j := r.Range(2, 64); j > 0; j-- {
				d[r.Intn(len(d))] = byte(r.U64())
			}
		case 3:
			d = append(d, r.Bytes(r.Range(1, 40))...)
		default:
			// structured: header area (magic, session id, chunk lengths)
			p := r.Intn(min(24, len(d)))
			d[p] = byte(r.U64())
		}
		out, pan := consume(k, d, cv)
		cs.Evals++
		cs.Keys = append(cs.Keys, vrt.HashBytes(d))
		if pan != nil {
			if !pan.InMPC {
				cs.Inconc("harness panic: " + pan.Value + "\n" + pan.Stack)
				continue
			}
			cs.Violate("C18|mutation-panic|"+kinds[k]+"|"+pan.Frame, fmt.Sprintf("mutated %s made the decoder or the consuming round panic: %s", kinds[k], pan.Value),
				map[string]any{"kind": kinds[k], "mutation": mut, "stack": pan.Stack})
		} else if out.rejected {
			cs.Count("mutations_rejected_in_"+out.stage, 1)
		} else {
			cs.Count("mutations_accepted", 1)
		}
	}
	// hostile length fields: the encodings frame their parts with uvarint
	// lengths; a well-formed but absurd length (2^31 .. 2^64-1, the values at
	// which int conversions change sign or wrap) is spliced in at every offset
	// of the header area and at sampled offsets, replacing the uvarint that
	// starts there. Decoders and consuming rounds must answer with an error.
	bigs := []uint64{1 << 63, 1<<64 - 1, 1<<63 - 1, 1 << 62, 1 << 32, 1<<32 - 1, 1 << 31, 1<<31 - 1, 1 << 24}
	for k, enc := range objs1 {
		if k == 2 {
			continue // round 3 has a fixed layout without length fields
		}
		var offs []int
		for o := 0; o < min(len(enc), 56); o++ {
			offs = append(offs, o)
		}
		for i := 0; i < 12; i++ {
			offs = append(offs, r.Intn(len(enc)))
		}
		for _, o := range offs {
			_, skip := binary.Uvarint(enc[o:])
			if skip <= 0 {
				skip = 1
			}
			v := bigs[r.Intn(len(bigs))]
			if o%3 == 0 {
				v = bigs[(o/3)%2] // 2^63 and 2^64-1 systematically
			}
			var lb [binary.MaxVarintLen64]byte
			n := binary.PutUvarint(lb[:], v)
			d := append(append(append([]byte(nil), enc[:o]...), lb[:n]...), enc[min(len(enc), o+skip):]...)
			_, pan := consume(k, d, cv)
			cs.Evals++
			cs.Count("hostile_length_fields", 1)
			if pan != nil && pan.InMPC {
				cs.Violate("C18|mutation-panic|"+kinds[k]+"|"+pan.Frame, fmt.Sprintf("%s with the length %d spliced in at offset %d made the decoder or the consuming round panic: %s", kinds[k], v, o, pan.Value),
					map[string]any{"kind": kinds[k], "offset": o, "length": fmt.Sprint(v), "stack": pan.Stack})
				break
			} else if pan != nil {
				cs.Inconc("harness panic: " + pan.Value + "\n" + pan.Stack)
			}
		}
	}
	c18Round3Integrity(cs, r, cv, a, b, &s1)
}

// c18Round3Integrity: a round-3 message damaged in transit, or one that answers
// another round-2 message of the same session id (the evaluator crashed, ran
// round 2 again and restored that later session), is either rejected with an
// error or - when the damage hits bytes the evaluation never reads (an
// unselected table row, OT half or hint label) - still yields SHA-256(a xor b).
// A nil error with another digest is the evaluator presenting garbage as the
// result ("malformed bytes are rejected with an error"). Single bits of every
// field are flipped on the decoded message (so the field is known) and random
// bytes/bits of the encoding.
func c18Round3Integrity(cs *vrt.Case, r *vrt.Rng, cv elliptic.Curve, a, b [32]byte, s1 *c18Run) {
	name := cv.Params().Name
	want := sha256.Sum256(sliceOf(xor32(a, b)))
	es, err := sha2pc.DecodeEvaluatorSession(cv, s1.esb)
	if err != nil {
		return
	}
	flip := func(l *ot.Label) {
		p := r.Intn(128)
		if p < 64 {
			l.D0 ^= 1 << uint(p)
		} else {
			l.D1 ^= 1 << uint(p-64)
		}
	}
	flipData := func(d *ot.LabelData) { p := r.Intn(len(d) * 8); d[p/8] ^= 1 << uint(p%8) }
	n := 20
	if cs.Thorough() {
		n = 80
	}
	for i := 0; i < n; i++ {
		m, err := sha2pc.DecodeRound3(s1.r3b)
		if err != nil {
			return
		}
		field := ""
		switch r.Intn(8) {
		case 0:
			p := r.Intn(256)
			m.Key[p/8] ^= 1 << uint(p%8)
			field = "Key"
		case 1, 2:
			g := r.Intn(len(m.GarbledTables))
			for len(m.GarbledTables[g]) == 0 {
				g = r.Intn(len(m.GarbledTables))
			}
			flip(&m.GarbledTables[g][r.Intn(len(m.GarbledTables[g]))])
			field = "GarbledTables"
		case 3:
			flip(&m.GarblerInputs[r.Intn(len(m.GarblerInputs))])
			field = "GarblerInputs"
		case 4, 5:
			h := &m.OutputHints[r.Intn(len(m.OutputHints))]
			if r.Bool() {
				flip(&h.L0)
			} else {
				flip(&h.L1)
			}
			field = "OutputHints"
		case 6:
			c := &m.Ciphertexts[r.Intn(len(m.Ciphertexts))]
			if r.Bool() {
				flipData(&c.Zero)
			} else {
				flipData(&c.One)
			}
			field = "Ciphertexts"
		default:
			d := append([]byte(nil), s1.r3b...)
			if r.Bool() {
				p := r.Intn(len(d) * 8)
				d[p/8] ^= 1 << uint(p%8)
			} else {
				p := r.Intn(len(d))
				d[p] ^= byte(r.Range(1, 255))
			}
			if m, err = sha2pc.DecodeRound3(d); err != nil {
				cs.Count("round3_damage_rejected_by_decoder", 1)
				continue
			}
			field = "encoding"
		}
		var dg [32]byte
		var rerr error
		pan := vrt.Guard(func() { dg, rerr = sha2pc.EvaluatorRound4(cv, es, m) })
		cs.Evals++
		cs.Key("r3-integrity", name, field, fmt.Sprint(cs.Idx, i))
		switch {
		case pan != nil && pan.InMPC:
			cs.Violate("C18|mutation-panic|round3|"+pan.Frame, "round 4 panicked on a damaged round-3 message ("+field+"): "+pan.Value, map[string]any{"stack": pan.Stack})
		case pan != nil:
			cs.Inconc("harness panic: " + pan.Value)
		case rerr != nil:
			cs.Count("round3_damage_rejected|"+field, 1)
		case dg != want:
			cs.Violate("C18|damaged-round3-wrong-digest|"+field, fmt.Sprintf("a round-3 message with one damaged bit/byte in %s was accepted and round 4 returned %x instead of SHA-256(a xor b) = %x without an error", field, dg[:8], want[:8]),
				map[string]any{"curve": name, "field": field})
		default:
			cs.Count("round3_damage_harmless|"+field, 1)
		}
	}
	// a round-3 message answering an earlier round-2 message of the same session id
	var dg [32]byte
	var rerr error
	pan := vrt.Guard(func() {
		m1, e1 := sha2pc.DecodeRound1(cv, s1.r1b)
		m3, e3 := sha2pc.DecodeRound3(s1.r3b)
		if e1 != nil || e3 != nil {
			rerr = fmt.Errorf("decode")
			return
		}
		_, es2, e2 := sha2pc.EvaluatorRound2(r.Fork(), cv, m1, b)
		if e2 != nil {
			rerr = e2
			return
		}
		dg, rerr = sha2pc.EvaluatorRound4(cv, es2, m3)
	})
	cs.Evals++
	switch {
	case pan != nil && pan.InMPC:
		cs.Violate("C18|mutation-panic|stale-session|"+pan.Frame, "round 4 panicked on a round-3 message answering another round 2: "+pan.Value, map[string]any{"stack": pan.Stack})
	case pan != nil:
		cs.Inconc("harness panic: " + pan.Value)
	case rerr != nil:
		cs.Count("stale_session_rejected", 1)
	case dg != want:
		cs.Violate("C18|stale-session-wrong-digest", fmt.Sprintf("round 4 accepted a round-3 message that answers another round-2 message of the same session id and returned %x instead of SHA-256(a xor b) without an error", dg[:8]), map[string]any{"curve": name})
	default:
		cs.Count("stale_session_harmless", 1)
	}
}

// c18Processes runs every round in its own OS process, exchanging files only.
// c18Interleaved keeps 2-4 sessions alive in one process and advances them in
// a PRNG-chosen interleaving (a server garbling for several clients). Message
// and session objects are held as Go values across the other sessions' rounds;
// each round-3 message is encoded when it is produced and again just before
// it is consumed: the two encodings must be identical, and every session must
// end with SHA-256(a xor b) of its own inputs. Half of the cases run the
// round-3 calls, and then the round-4 calls, of all sessions in parallel goroutines.
func c18Interleaved(cs *vrt.Case, r *vrt.Rng, cv elliptic.Curve) {
	n := r.Range(2, 6)
	type sess struct {
		a, b   [32]byte
		seed   uint64
		m1     sha2pc.Round1Payload
		gs     *sha2pc.GarblerSession
		m2     sha2pc.Round2Payload
		es     *sha2pc.EvaluatorSession
		m3     sha2pc.Round3Payload
		r3b    []byte
		step   int
		digest [32]byte
	}
	ss := make([]*sess, n)
	for i := range ss {
		ss[i] = &sess{a: c18Input(r), b: c18Input(r), seed: r.U64()}
	}
	parallel3 := r.Bool()
	desc := map[string]any{"kind": "interleaved sessions", "curve": cv.Params().Name, "sessions": n, "parallel_round3": parallel3}
	cs.SetSample(desc)
	var order []int
	fail := func(i int, stage string, err error) {
		cs.Violate("C18|interleaved-error|"+stage, fmt.Sprintf("session %d of %d interleaved sessions failed in %s: %v", i, n, stage, err), map[string]any{"case": desc, "order": fmt.Sprint(order)})
	}
	advance := func(i int) bool {
		x := ss[i]
		var err error
		switch x.step {
		case 0:
			if x.m1, x.gs, err = sha2pc.GarblerRound1(vrt.Derive(x.seed, "g1", 0), cv); err != nil {
				fail(i, "GarblerRound1", err)
				return false
			}
		case 1:
			if x.m2, x.es, err = sha2pc.EvaluatorRound2(vrt.Derive(x.seed, "e2", 0), cv, x.m1, x.b); err != nil {
				fail(i, "EvaluatorRound2", err)
				return false
			}
		case 2:
			if x.m3, err = sha2pc.GarblerRound3(vrt.Derive(x.seed, "g3", 0), cv, x.gs, x.a, x.m2); err != nil {
				fail(i, "GarblerRound3", err)
				return false
			}
			if x.r3b, err = sha2pc.EncodeRound3(x.m3); err != nil {
				fail(i, "EncodeRound3", err)
				return false
			}
		case 3:
			again, err := sha2pc.EncodeRound3(x.m3)
			if err != nil {
				fail(i, "EncodeRound3(again)", err)
				return false
			}
			if !bytes.Equal(again, x.r3b) {
				cs.Violate("C18|interleaved-message-changed", fmt.Sprintf("the round-3 message of session %d encodes differently after other sessions advanced (first difference at byte %d of %d)", i, firstDiff(again, x.r3b), len(x.r3b)), map[string]any{"case": desc, "order": fmt.Sprint(order)})
				return false
			}
			if x.digest, err = sha2pc.EvaluatorRound4(cv, x.es, x.m3); err != nil {
				fail(i, "EvaluatorRound4", err)
				return false
			}
		}
		x.step++
		return true
	}
	pan := vrt.Guard(func() {
		for {
			var live []int
			for i, x := range ss {
				if x.step < 4 {
					live = append(live, i)
				}
			}
			if len(live) == 0 {
				return
			}
			// all sessions at round 3 (and then all at round 4): optionally in
			// parallel goroutines - a server answering, and a client finishing,
			// several sessions at once
			all3 := parallel3 && len(live) == n
			for _, i := range live {
				all3 = all3 && ss[i].step == ss[live[0]].step && (ss[i].step == 2 || ss[i].step == 3)
			}
			if all3 {
				var wg sync.WaitGroup
				oks := make([]bool, n)
				for _, i := range live {
					wg.Add(1)
					go func(i int) { defer wg.Done(); oks[i] = advance(i) }(i)
				}
				wg.Wait()
				order = append(order, -3)
				cs.Count("rounds_run_in_parallel_goroutines", 1)
				for _, i := range live {
					if !oks[i] {
						return
					}
				}
				continue
			}
			i := live[r.Intn(len(live))]
			if parallel3 && (ss[i].step == 2 || ss[i].step == 3) {
				// hold this one until the others reach the same round
				waiting := false
				for _, j := range live {
					if ss[j].step < ss[i].step {
						i, waiting = j, true
						break
					}
				}
				_ = waiting
			}
			order = append(order, i)
			if !advance(i) {
				return
			}
		}
	})
	if pan != nil {
		if pan.InMPC {
			cs.Violate("C18|interleaved-panic|"+pan.Frame, "interleaved sessions panicked: "+pan.Value, map[string]any{"case": desc, "stack": pan.Stack})
		} else {
			cs.Inconc("harness panic: " + pan.Value + "\n" + pan.Stack)
		}
		return
	}
	for i, x := range ss {
		if x.step < 4 {
			return // a violation was reported
		}
		cs.Evals++
		if want := sha256.Sum256(sliceOf(xor32(x.a, x.b))); x.digest != want {
			cs.Violate("C18|interleaved-digest", fmt.Sprintf("session %d of %d interleaved sessions: digest %x, SHA-256(a xor b) is %x", i, n, x.digest, want), map[string]any{"case": desc, "order": fmt.Sprint(order)})
			return
		}
	}
	cs.Key("interleaved", cv.Params().Name, fmt.Sprint(order), fmt.Sprint(ss[0].seed))
	cs.Count("interleaved_session_groups", 1)
	// finishing storm (fast curves): many goroutines complete (again) the last
	// round of the prepared sessions at once and on few Ps, so that evaluations
	// start while others are in the middle of theirs. Round 4 on the same session
	// state and message gives the same digest every time (the repository's own
	// idempotency test).
	if name := cv.Params().Name; parallel3 && (name == "P-224" || name == "P-256") {
		defer runtime.GOMAXPROCS(runtime.GOMAXPROCS(vrt.Pick(r, []int{1, 2})))
		G := r.Range(8, 16)
		var wg sync.WaitGroup
		var mu sync.Mutex
		var bad []string
		for g := 0; g < G; g++ {
			wg.Add(1)
			go func(g int) {
				defer wg.Done()
				x := ss[g%n]
				want := sha256.Sum256(sliceOf(xor32(x.a, x.b)))
				for k := 0; k < 3; k++ {
					var dg [32]byte
					var err error
					pan := vrt.Guard(func() { dg, err = sha2pc.EvaluatorRound4(cv, x.es, x.m3) })
					if pan != nil || err != nil || dg != want {
						mu.Lock()
						bad = append(bad, fmt.Sprintf("goroutine %d, session %d, repetition %d: panic=%v err=%v digest ok=%v", g, g%n, k, pan != nil, err, dg == want))
						mu.Unlock()
						return
					}
				}
			}(g)
		}
		wg.Wait()
		cs.Evals += int64(3 * G)
		cs.Count("finishing_storms", 1)
		if len(bad) > 0 {
			cs.Violate("C18|concurrent-round4", fmt.Sprintf("%d of %d goroutines completing round 4 of %d prepared sessions at the same time failed, e.g. %s", len(bad), G, n, bad[0]), map[string]any{"case": desc})
		}
	}
}

func sliceOf(a [32]byte) []byte { return a[:] }

func firstDiff(a, b []byte) int {
	for i := 0; i < len(a) && i < len(b); i++ {
		if a[i] != b[i] {
			return i
		}
	}
	return min(len(a), len(b))
}

func c18Processes(cs *vrt.Case, r *vrt.Rng, cv elliptic.Curve) {
	a, b := c18Input(r), c18Input(r)
	seed := r.U64()
	name := cv.Params().Name
	desc := map[string]any{"kind": "process-per-round", "curve": name, "a": hex.EncodeToString(a[:]), "b": hex.EncodeToString(b[:])}
	cs.SetSample(desc)
	dir, err := os.MkdirTemp("", "c18-")
	if err != nil {
		cs.Inconc(err.Error())
		return
	}
	defer os.RemoveAll(dir)
	self, _ := os.Executable()
	for round := 1; round <= 4; round++ {
		in := a
		if round%2 == 0 {
			in = b
		}
		cmd := exec.Command(self, "aux", "c18", fmt.Sprint(round), dir, name, fmt.Sprint(seed), hex.EncodeToString(in[:]))
		out, err := cmd.CombinedOutput()
		if err != nil {
			cs.Violate("C18|process-round-error", fmt.Sprintf("round %d in its own process failed: %v: %s", round, err, trunc(string(out), 600)), map[string]any{"case": desc})
			return
		}
	}
	cs.Evals++
	dg, err := os.ReadFile(filepath.Join(dir, "digest"))
	if err != nil {
		cs.Inconc(err.Error())
		return
	}
	want := sha256.Sum256(func() []byte { x := xor32(a, b); return x[:] }())
	if !bytes.Equal(dg, want[:]) {
		cs.Violate("C18|process-digest", fmt.Sprintf("four processes exchanging files produced %x, expected %x", dg, want), map[string]any{"case": desc})
		return
	}
	// and the transcript equals the in-memory run with the same randomness
	base := c18Protocol(cv, seed, a, b, 0)
	r3, _ := os.ReadFile(filepath.Join(dir, "r3.msg"))
	if base.err == nil && !bytes.Equal(r3, base.r3b) {
		cs.Violate("C18|process-transcript", "round-3 bytes of the restarted run differ from the uninterrupted run under identical randomness", map[string]any{"case": desc})
		return
	}
	cs.Count("process_per_round_runs", 1)
	cs.Key("proc", name, fmt.Sprint(seed))
}

func c18Aux(args []string) int {
	if len(args) != 5 {
		return 64
	}
	var round int
	var seed uint64
	fmt.Sscan(args[0], &round)
	dir, name := args[1], args[2]
	fmt.Sscan(args[3], &seed)
	var in [32]byte
	raw, _ := hex.DecodeString(args[4])
	copy(in[:], raw)
	var cv elliptic.Curve
	for _, c := range c18Curves {
		if c.Params().Name == name {
			cv = c
		}
	}
	rd := func(f string) []byte {
		b, err := os.ReadFile(filepath.Join(dir, f))
		if err != nil {
			fmt.Println(err)
			os.Exit(5)
		}
		return b
	}
	wr := func(f string, b []byte) { os.WriteFile(filepath.Join(dir, f), b, 0o600) }
	die := func(err error) int { fmt.Println(err); return 6 }
	switch round {
	case 1:
		m1, gs, err := sha2pc.GarblerRound1(vrt.Derive(seed, "g1", 0), cv)
		if err != nil {
			return die(err)
		}
		b1, e1 := sha2pc.EncodeRound1(cv, m1)
		b2, e2 := sha2pc.EncodeGarblerSession(cv, gs)
		if e1 != nil || e2 != nil {
			return die(fmt.Errorf("%v %v", e1, e2))
		}
		wr("r1.msg", b1)
		wr("gs.bin", b2)
	case 2:
		m1, err := sha2pc.DecodeRound1(cv, rd("r1.msg"))
		if err != nil {
			return die(err)
		}
		m2, es, err := sha2pc.EvaluatorRound2(vrt.Derive(seed, "e2", 0), cv, m1, in)
		if err != nil {
			return die(err)
		}
		b1, e1 := sha2pc.EncodeRound2(cv, m2)
		b2, e2 := sha2pc.EncodeEvaluatorSession(cv, es)
		if e1 != nil || e2 != nil {
			return die(fmt.Errorf("%v %v", e1, e2))
		}
		wr("r2.msg", b1)
		wr("es.bin", b2)
	case 3:
		gs, err := sha2pc.DecodeGarblerSession(cv, rd("gs.bin"))
		if err != nil {
			return die(err)
		}
		m2, err := sha2pc.DecodeRound2(cv, rd("r2.msg"))
		if err != nil {
			return die(err)
		}
		m3, err := sha2pc.GarblerRound3(vrt.Derive(seed, "g3", 0), cv, gs, in, m2)
		if err != nil {
			return die(err)
		}
		b3, err := sha2pc.EncodeRound3(m3)
		if err != nil {
			return die(err)
		}
		wr("r3.msg", b3)
	case 4:
		es, err := sha2pc.DecodeEvaluatorSession(cv, rd("es.bin"))
		if err != nil {
			return die(err)
		}
		m3, err := sha2pc.DecodeRound3(rd("r3.msg"))
		if err != nil {
			return die(err)
		}
		d, err := sha2pc.EvaluatorRound4(cv, es, m3)
		if err != nil {
			return die(err)
		}
		wr("digest", d[:])
	}
	return 0
}
