package props

import (
	"fmt"
	"math/big"
	"strings"

	"github.com/markkurossi/mpc/circuit"
	"github.com/markkurossi/mpc/compiler/circuits"
	"github.com/markkurossi/mpc/compiler/utils"
	"github.com/markkurossi/mpc/types"

	"verifharness/internal/refc"
	"verifharness/internal/vrt"
)

// c07Spec describes one builder: how to call it and what it must compute.
type c07Spec struct {
	name string
	// kind: "bin" (x,y -> wr bits), "cmp" (x,y -> 1 bit), "log" (1,1 -> 1), "bit" (x, index -> 1),
	// "mux" (cond, t, f -> w), "index" (array, idx -> elem), "div" (x,y -> wr; y != 0)
	kind string
	call func(cc *circuits.Compiler, in [][]*circuits.Wire, out []*circuits.Wire, aux int) error
	// ref computes the exact function of the operand values (unsigned wire
	// values; widths given), reduced mod 2^wr by the caller. nil result = undefined.
	ref func(v []*big.Int, w []int, wr, aux int) *big.Int
}

func sgn(v *big.Int, w int) *big.Int {
	r := new(big.Int).Set(v)
	if w > 0 && v.Bit(w-1) == 1 {
		r.Sub(r, new(big.Int).Lsh(big.NewInt(1), uint(w)))
	}
	return r
}

func boolBig(b bool) *big.Int {
	if b {
		return big.NewInt(1)
	}
	return new(big.Int)
}

func binCall(f func(cc *circuits.Compiler, x, y, z []*circuits.Wire) error) func(*circuits.Compiler, [][]*circuits.Wire, []*circuits.Wire, int) error {
	return func(cc *circuits.Compiler, in [][]*circuits.Wire, out []*circuits.Wire, _ int) error {
		return f(cc, in[0], in[1], out)
	}
}

func divCall(f func(cc *circuits.Compiler, a, b, q, r []*circuits.Wire) error, quot bool) func(*circuits.Compiler, [][]*circuits.Wire, []*circuits.Wire, int) error {
	return func(cc *circuits.Compiler, in [][]*circuits.Wire, out []*circuits.Wire, _ int) error {
		if quot {
			return f(cc, in[0], in[1], out, nil)
		}
		return f(cc, in[0], in[1], nil, out)
	}
}

func udivRef(quot bool) func([]*big.Int, []int, int, int) *big.Int {
	return func(v []*big.Int, w []int, wr, _ int) *big.Int {
		if v[1].Sign() == 0 {
			return nil
		}
		q, r := new(big.Int).QuoRem(v[0], v[1], new(big.Int))
		if quot {
			return q
		}
		return r
	}
}

func idivRef(quot bool) func([]*big.Int, []int, int, int) *big.Int {
	return func(v []*big.Int, w []int, wr, _ int) *big.Int {
		a, b := sgn(v[0], w[0]), sgn(v[1], w[1])
		if b.Sign() == 0 {
			return nil
		}
		if quot {
			return new(big.Int).Quo(a, b) // truncated toward zero (testsuite/lang/divi.mpcl)
		}
		// |a| mod |b| (testsuite/lang/modi.mpcl)
		return new(big.Int).Rem(new(big.Int).Abs(a), new(big.Int).Abs(b))
	}
}

func cmpRef(signed bool, op string) func([]*big.Int, []int, int, int) *big.Int {
	return func(v []*big.Int, w []int, wr, _ int) *big.Int {
		a, b := v[0], v[1]
		if signed {
			a, b = sgn(a, w[0]), sgn(b, w[1])
		}
		c := a.Cmp(b)
		switch op {
		case "gt":
			return boolBig(c > 0)
		case "ge":
			return boolBig(c >= 0)
		case "lt":
			return boolBig(c < 0)
		case "le":
			return boolBig(c <= 0)
		case "eq":
			return boolBig(c == 0)
		}
		return boolBig(c != 0)
	}
}

var c07Specs = []c07Spec{
	{"Adder", "bin", binCall(circuits.NewAdder), func(v []*big.Int, w []int, wr, _ int) *big.Int { return new(big.Int).Add(v[0], v[1]) }},
	{"Subtractor", "bin", binCall(circuits.NewSubtractor), func(v []*big.Int, w []int, wr, _ int) *big.Int { return new(big.Int).Sub(v[0], v[1]) }},
	{"Multiplier", "bin", func(cc *circuits.Compiler, in [][]*circuits.Wire, out []*circuits.Wire, aux int) error {
		return circuits.NewMultiplier(cc, aux, in[0], in[1], out)
	}, func(v []*big.Int, w []int, wr, _ int) *big.Int { return new(big.Int).Mul(v[0], v[1]) }},
	{"ArrayMultiplier", "bin", binCall(circuits.NewArrayMultiplier), func(v []*big.Int, w []int, wr, _ int) *big.Int { return new(big.Int).Mul(v[0], v[1]) }},
	{"KaratsubaMultiplier", "bin", func(cc *circuits.Compiler, in [][]*circuits.Wire, out []*circuits.Wire, aux int) error {
		if aux < 8 {
			aux = 8 // NewMultiplier never passes a smaller limit (table minimum is 9)
		}
		return circuits.NewKaratsubaMultiplier(cc, aux, in[0], in[1], out)
	}, func(v []*big.Int, w []int, wr, _ int) *big.Int { return new(big.Int).Mul(v[0], v[1]) }},
	{"WallaceMultiplier", "bin", binCall(circuits.NewWallaceMultiplier), func(v []*big.Int, w []int, wr, _ int) *big.Int { return new(big.Int).Mul(v[0], v[1]) }},
	{"UDivider/q", "div", divCall(circuits.NewUDivider, true), udivRef(true)},
	{"UDivider/r", "div", divCall(circuits.NewUDivider, false), udivRef(false)},
	{"UDividerLong/q", "div", divCall(circuits.NewUDividerLong, true), udivRef(true)},
	{"UDividerLong/r", "div", divCall(circuits.NewUDividerLong, false), udivRef(false)},
	{"UDividerRestoring/q", "div", divCall(circuits.NewUDividerRestoring, true), udivRef(true)},
	{"UDividerRestoring/r", "div", divCall(circuits.NewUDividerRestoring, false), udivRef(false)},
	{"UDividerArray/q", "div", divCall(circuits.NewUDividerArray, true), udivRef(true)},
	{"UDividerArray/r", "div", divCall(circuits.NewUDividerArray, false), udivRef(false)},
	{"UDividerGoldschmidtFast/q", "div", divCall(circuits.NewUDividerGoldschmidtFast, true), udivRef(true)},
	{"UDividerGoldschmidtFast/r", "div", divCall(circuits.NewUDividerGoldschmidtFast, false), udivRef(false)},
	{"IDivider/q", "div", divCall(circuits.NewIDivider, true), idivRef(true)},
	{"IDivider/r", "div", divCall(circuits.NewIDivider, false), idivRef(false)},
	{"IntGt", "cmp", binCall(circuits.NewIntGtComparator), cmpRef(true, "gt")},
	{"IntGe", "cmp", binCall(circuits.NewIntGeComparator), cmpRef(true, "ge")},
	{"IntLt", "cmp", binCall(circuits.NewIntLtComparator), cmpRef(true, "lt")},
	{"IntLe", "cmp", binCall(circuits.NewIntLeComparator), cmpRef(true, "le")},
	{"UintGt", "cmp", binCall(circuits.NewUintGtComparator), cmpRef(false, "gt")},
	{"UintGe", "cmp", binCall(circuits.NewUintGeComparator), cmpRef(false, "ge")},
	{"UintLt", "cmp", binCall(circuits.NewUintLtComparator), cmpRef(false, "lt")},
	{"UintLe", "cmp", binCall(circuits.NewUintLeComparator), cmpRef(false, "le")},
	{"Eq", "cmp", binCall(circuits.NewEqComparator), cmpRef(false, "eq")},
	{"Neq", "cmp", binCall(circuits.NewNeqComparator), cmpRef(false, "ne")},
	{"LogicalAND", "log", binCall(circuits.NewLogicalAND), func(v []*big.Int, w []int, wr, _ int) *big.Int { return new(big.Int).And(v[0], v[1]) }},
	{"LogicalOR", "log", binCall(circuits.NewLogicalOR), func(v []*big.Int, w []int, wr, _ int) *big.Int { return new(big.Int).Or(v[0], v[1]) }},
	{"BitSetTest", "bit", func(cc *circuits.Compiler, in [][]*circuits.Wire, out []*circuits.Wire, aux int) error {
		return circuits.NewBitSetTest(cc, in[0], types.Size(aux), out)
	}, func(v []*big.Int, w []int, wr, aux int) *big.Int { return big.NewInt(int64(v[0].Bit(aux))) }},
	{"BitClrTest", "bit", func(cc *circuits.Compiler, in [][]*circuits.Wire, out []*circuits.Wire, aux int) error {
		return circuits.NewBitClrTest(cc, in[0], types.Size(aux), out)
	}, func(v []*big.Int, w []int, wr, aux int) *big.Int { return big.NewInt(int64(1 - v[0].Bit(aux))) }},
	{"BinaryAND", "bin", binCall(circuits.NewBinaryAND), func(v []*big.Int, w []int, wr, _ int) *big.Int { return new(big.Int).And(v[0], v[1]) }},
	{"BinaryOR", "bin", binCall(circuits.NewBinaryOR), func(v []*big.Int, w []int, wr, _ int) *big.Int { return new(big.Int).Or(v[0], v[1]) }},
	{"BinaryXOR", "bin", binCall(circuits.NewBinaryXOR), func(v []*big.Int, w []int, wr, _ int) *big.Int { return new(big.Int).Xor(v[0], v[1]) }},
	{"BinaryClear", "bin", binCall(circuits.NewBinaryClear), func(v []*big.Int, w []int, wr, _ int) *big.Int { return new(big.Int).AndNot(v[0], v[1]) }},
	{"Hamming", "bin", binCall(circuits.Hamming), func(v []*big.Int, w []int, wr, _ int) *big.Int {
		x := new(big.Int).Xor(v[0], v[1])
		n := 0
		for i := 0; i < x.BitLen(); i++ {
			n += int(x.Bit(i))
		}
		return big.NewInt(int64(n))
	}},
	{"MUX", "mux", func(cc *circuits.Compiler, in [][]*circuits.Wire, out []*circuits.Wire, _ int) error {
		return circuits.NewMUX(cc, in[0], in[1], in[2], out)
	}, func(v []*big.Int, w []int, wr, _ int) *big.Int {
		if v[0].Sign() != 0 {
			return v[1]
		}
		return v[2]
	}},
	{"Index", "index", func(cc *circuits.Compiler, in [][]*circuits.Wire, out []*circuits.Wire, aux int) error {
		return circuits.NewIndex(cc, aux, in[0], in[1], out)
	}, func(v []*big.Int, w []int, wr, aux int) *big.Int {
		n := w[0] / aux
		if !v[1].IsInt64() || int(v[1].Int64()) >= n {
			return nil // out-of-range index: not defined
		}
		e := new(big.Int).Rsh(v[0], uint(int(v[1].Int64())*aux))
		return e.And(e, new(big.Int).Sub(new(big.Int).Lsh(big.NewInt(1), uint(aux)), big.NewInt(1)))
	}},
}

// c07Tuple is one call site: widths, result width, target, mode, aux.
type c07Tuple struct {
	spec   *c07Spec
	w      []int
	wr     int
	target utils.Target
	modeB  bool
	opt    bool // run ConstPropagate+Prune as the streaming code path does
	aux    int
}

func (t c07Tuple) String() string {
	return fmt.Sprintf("%s %s mode=%s w=%v wr=%d aux=%d opt=%v", t.spec.name, t.target, map[bool]string{false: "A(direct)", true: "B(indirect)"}[t.modeB], t.w, t.wr, t.aux, t.opt)
}

// class is the call-site class a failure is keyed by: builder (+ target for
// the dividers, which dispatch on it), the relation of the operand widths and
// the relation of the result width to the wider operand. "wx=wy,wr=max" is
// the nominal shape (what type-checked MPCL arithmetic produces); there the
// width itself is part of the key for widths >= 15.
func (t c07Tuple) class() string {
	name := t.spec.name
	if t.spec.kind == "div" {
		name += "|" + t.target.String()
	}
	shape := "nominal"
	if t.spec.kind == "bin" || t.spec.kind == "div" || t.spec.kind == "cmp" {
		mx := max(t.w[0], t.w[1])
		rel := "wx=wy"
		switch {
		case t.w[0] < t.w[1]:
			rel = "wx<wy"
		case t.w[0] > t.w[1]:
			rel = "wx>wy"
		}
		wr := "wr=max"
		switch {
		case t.spec.kind == "cmp":
		case t.wr < mx:
			wr = "wr<max"
		case t.wr == mx+1:
			wr = "wr=max+1"
		case t.wr > mx+1:
			wr = "wr>max+1"
		}
		shape = rel + "," + wr
		if shape == "wx=wy,wr=max" && mx >= 15 {
			shape = fmt.Sprintf("wx=wy,wr=max:w=%d", mx)
		}
	}
	return name + "|" + shape
}

// c07Build builds the circuit for a tuple the way the code base does.
func c07Build(t c07Tuple) (c *circuit.Circuit, err error, pan *vrt.PanicInfo) {
	pan = vrt.Guard(func() {
		params := utils.NewParams()
		params.Target = t.target
		calloc := circuits.NewAllocator()
		var in [][]*circuits.Wire
		var flat []*circuits.Wire
		var inputs circuit.IO
		for i, w := range t.w {
			ws := calloc.Wires(types.Size(w))
			in = append(in, ws)
			flat = append(flat, ws...)
			inputs = append(inputs, circuit.IOArg{Name: fmt.Sprintf("i%d", i), Type: uintT(w)})
		}
		outputs := circuit.IO{{Name: "o", Type: uintT(t.wr)}}
		out := calloc.Wires(types.Size(t.wr))
		var cc *circuits.Compiler
		if !t.modeB {
			for _, o := range out {
				o.SetOutput(true)
			}
			cc, err = circuits.NewCompiler(params, calloc, inputs, outputs, flat, out)
			if err != nil {
				return
			}
			if err = t.spec.call(cc, in, out, t.aux); err != nil {
				return
			}
			if t.opt {
				cc.ConstPropagate()
				cc.Prune()
			}
		} else {
			cc, err = circuits.NewCompiler(params, calloc, inputs, outputs, flat, nil)
			if err != nil {
				return
			}
			if err = t.spec.call(cc, in, out, t.aux); err != nil {
				return
			}
			for _, w := range out {
				o := calloc.Wire()
				cc.ID(w, o)
				cc.OutputWires = append(cc.OutputWires, o)
			}
			for _, o := range cc.OutputWires {
				o.SetOutput(true)
			}
			cc.ConstPropagate()
			cc.ShortCircuitXORZero()
			if t.opt {
				cc.Prune()
			}
		}
		c = cc.Compile()
		if t.target == utils.TargetGMW {
			c.AssignLevels(utils.TargetGMW)
		}
	})
	return
}

func c07Vectors(r *vrt.Rng, t c07Tuple) ([]*big.Int, bool) {
	total := 0
	for _, w := range t.w {
		total += w
	}
	if total <= 12 {
		v, _ := allOrSampled(r, total, 12, 0)
		return v, true
	}
	var vecs []*big.Int
	for i := 0; i < 192; i++ {
		f := new(big.Int)
		off := 0
		for _, w := range t.w {
			var x *big.Int
			if i%3 == 0 {
				x = r.Big(w)
			} else {
				x = r.BoundaryBig(w)
			}
			f.Or(f, new(big.Int).Lsh(x, uint(off)))
			off += w
		}
		vecs = append(vecs, f)
	}
	return vecs, false
}

// c07Check builds and judges one tuple. Returns a short status for counters.
func c07Check(cs *vrt.Case, r *vrt.Rng, t c07Tuple) {
	c, err, pan := c07Build(t)
	cs.Count("tuples", 1)
	cs.Seen("builders", t.spec.name)
	if pan != nil {
		if !pan.InMPC {
			cs.Inconc("harness panic: " + pan.Value + "\n" + pan.Stack)
			return
		}
		msg := pan.Value
		if i := strings.Index(msg, "["); i > 0 && strings.Contains(msg, "index out of range") {
			msg = "index out of range"
		}
		if strings.Contains(msg, "slice bounds out of range") {
			msg = "slice bounds out of range"
		}
		cs.Violate("C07|"+t.class()+"|panic:"+msg, fmt.Sprintf("builder panicked for %s: %s", t, pan.Value), map[string]any{"tuple": t.String(), "stack": pan.Stack})
		return
	}
	if err != nil {
		// a builder may refuse a shape (e.g. MUX with mismatching widths): not a wrong value
		cs.Count("refused", 1)
		cs.Seen("refusals", t.spec.name+": "+trimNum(err.Error()))
		return
	}
	vecs, exh := c07Vectors(r, t)
	outs, e := refc.EvalFlat(c, vecs)
	if e != nil {
		cs.Violate("C07|"+t.class()+"|malformed-circuit", fmt.Sprintf("builder produced a circuit that cannot be evaluated for %s: %v", t, e), map[string]any{"tuple": t.String()})
		return
	}
	mod := new(big.Int).Lsh(big.NewInt(1), uint(t.wr))
	judged := 0
	goldSeen := map[string]bool{}
	for k, f := range vecs {
		var v []*big.Int
		off := 0
		for _, w := range t.w {
			x := new(big.Int).Rsh(f, uint(off))
			x.And(x, new(big.Int).Sub(new(big.Int).Lsh(big.NewInt(1), uint(w)), big.NewInt(1)))
			v = append(v, x)
			off += w
		}
		want := t.spec.ref(v, t.w, t.wr, t.aux)
		if want == nil {
			continue
		}
		want = new(big.Int).Mod(want, mod)
		judged++
		if outs[k].Cmp(want) != 0 {
			var ops []string
			for _, x := range v {
				ops = append(ops, x.Text(10))
			}
			if key, ok := c07Goldschmidt(t, v, outs[k], want); ok {
				if exh {
					// every operand vector of this tuple is evaluated: the failing
					// vectors of the unchanged tree are pinned, another failing vector
					// with the same signature is a new witness (all vectors are looked at)
					key = vrt.WitnessKey(key, fmt.Sprintf("%s %s w=%v wr=%d|%s|%s", t.spec.name, t.target, t.w, t.wr, strings.Join(ops, ","), outs[k].Text(10)))
				}
				// with sampled operands the known signature is reported once per
				// tuple and the scan goes on: it must not hide a failure of
				// another kind on a later vector
				if !exh && goldSeen[key] {
					continue
				}
				goldSeen[key] = true
				cs.Violate(key, fmt.Sprintf("Goldschmidt divider inexact: %s operands %v give %s, exact %s", t, ops, outs[k].Text(10), want.Text(10)),
					map[string]any{"tuple": t.String(), "operands": ops, "got": outs[k].Text(10), "want": want.Text(10)})
				continue
			}
			key := "C07|" + t.class() + "|wrong-value"
			if t.spec.name == "Subtractor" && t.wr > max(t.w[0], t.w[1])+1 {
				// the known finding is exactly this: the difference is right in
				// its low max+1 bits and the bits above are zero instead of the
				// sign. Any other wrong value of these shapes is not that finding.
				low := new(big.Int).Sub(new(big.Int).Lsh(big.NewInt(1), uint(max(t.w[0], t.w[1])+1)), big.NewInt(1))
				if new(big.Int).And(want, low).Cmp(outs[k]) != 0 {
					key += "|not-the-missing-sign-fill"
				}
			}
			cs.Violate(key, fmt.Sprintf("%s: operands %v give %s, exact result mod 2^%d is %s", t, ops, outs[k].Text(10), t.wr, want.Text(10)),
				map[string]any{"tuple": t.String(), "operands": ops, "got": outs[k].Text(10), "want": want.Text(10)})
			cs.Evals += int64(judged)
			return
		}
	}
	cs.Evals += int64(judged)
	if judged > 0 {
		cs.Key(t.String())
	}
	if exh {
		cs.Count("tuples_with_exhaustive_operands", 1)
	}
}

// c07Goldschmidt recognises the one known inexactness of the Goldschmidt
// divider (the quotient estimate is off by 2 or 3 for some operands and the
// final correction only repairs +-1): the observed quotient differs from the
// exact one by at most 3, or the observed remainder is a - (q+d)*b for such
// a d. Anything else keeps its own class key.
func c07Goldschmidt(t c07Tuple, v []*big.Int, got, want *big.Int) (string, bool) {
	n := t.spec.name
	gold := strings.HasPrefix(n, "UDividerGoldschmidtFast") ||
		(t.target == utils.TargetGMW && (strings.HasPrefix(n, "UDivider/") || strings.HasPrefix(n, "IDivider/")))
	if !gold {
		return "", false
	}
	mod := new(big.Int).Lsh(big.NewInt(1), uint(t.wr))
	half := new(big.Int).Rsh(mod, 1)
	signedDiff := func(x, y *big.Int) *big.Int {
		d := new(big.Int).Sub(x, y)
		d.Mod(d, mod)
		if d.Cmp(half) >= 0 {
			d.Sub(d, mod)
		}
		return d
	}
	if strings.HasSuffix(n, "/q") {
		d := signedDiff(got, want)
		if d.Sign() != 0 && d.CmpAbs(big.NewInt(3)) <= 0 && t.wr >= 3 {
			return "C07|Goldschmidt|quotient-off-by-at-most-3", true
		}
		return "", false
	}
	a, b := v[0], v[1]
	if strings.HasPrefix(n, "IDivider") {
		a, b = new(big.Int).Abs(sgn(a, t.w[0])), new(big.Int).Abs(sgn(b, t.w[1]))
	}
	if b.Sign() == 0 {
		return "", false
	}
	q := new(big.Int).Quo(a, b)
	// the divider works at n = max operand width and zero-extends its result
	if n := max(t.w[0], t.w[1]); n < t.wr {
		mod = new(big.Int).Lsh(big.NewInt(1), uint(n))
	}
	for d := int64(-3); d <= 3; d++ {
		if d == 0 {
			continue
		}
		r := new(big.Int).Sub(a, new(big.Int).Mul(new(big.Int).Add(q, big.NewInt(d)), b))
		r.Mod(r, mod)
		if r.Cmp(got) == 0 {
			return "C07|Goldschmidt|remainder-of-quotient-off-by-at-most-3", true
		}
	}
	return "", false
}

func trimNum(s string) string {
	var b strings.Builder
	for _, ch := range s {
		if ch >= '0' && ch <= '9' {
			b.WriteByte('#')
		} else {
			b.WriteRune(ch)
		}
	}
	return strings.ReplaceAll(strings.ReplaceAll(b.String(), "###", "#"), "##", "#")
}

var c07BigWidths = []int{15, 16, 17, 20, 21, 22, 31, 32, 33, 63, 64, 65, 127, 128, 129, 130}

// c07Tuples enumerates the call sites of one (spec, target, mode).
func c07Tuples(r *vrt.Rng, spec *c07Spec, target utils.Target, modeB bool, thorough bool, chunk, chunks int) []c07Tuple {
	var out []c07Tuple
	maxSmall := 4
	if thorough {
		maxSmall = 8
	}
	add := func(w []int, wr, aux int) {
		out = append(out, c07Tuple{spec: spec, w: w, wr: wr, target: target, modeB: modeB, aux: aux, opt: len(out)%2 == 1})
	}
	wrs := func(mx int) []int {
		s := []int{mx, mx + 1, 2 * mx, 2*mx + 3}
		if mx > 1 {
			s = append(s, mx-1)
		}
		return s
	}
	switch spec.kind {
	case "bin", "div":
		for wx := 1; wx <= maxSmall; wx++ {
			for wy := 1; wy <= maxSmall; wy++ {
				for _, wr := range wrs(max(wx, wy)) {
					add([]int{wx, wy}, wr, 0)
				}
			}
		}
		big := c07BigWidths
		if spec.kind == "div" && !thorough {
			big = []int{16, 17, 32, 33, 64}
		}
		if spec.kind == "div" && thorough {
			big = []int{15, 16, 17, 31, 32, 33, 63, 64, 65, 128}
		}
		for _, w := range big {
			add([]int{w, w}, w, 0)
			if thorough || w%2 == 0 {
				add([]int{w, w}, w+1, 0)
				add([]int{w, w}, 2*w, 0)
				add([]int{w, vrt.Pick(r, []int{1, 8, w - 1, w / 2})}, w, 0)
				add([]int{vrt.Pick(r, []int{1, 8, w - 1, w / 2}), w}, w, 0)
			}
		}
		if strings.Contains(spec.name, "Multiplier") && spec.name != "WallaceMultiplier" && spec.name != "ArrayMultiplier" {
			// algorithm-switch widths: the Karatsuba threshold table and explicit limits
			for _, w := range []int{7, 8, 9, 18, 19, 20, 21, 22, 23, 24, 40, 41, 42, 48, 96} {
				for _, aux := range []int{0, 8, 16, 21, 40, 1000} {
					if thorough || (w+aux)%3 == 0 {
						add([]int{w, w}, 2*w, aux)
						add([]int{w, w}, w, aux)
					}
				}
			}
		}
	case "cmp":
		for wx := 1; wx <= maxSmall+1; wx++ {
			for wy := 1; wy <= maxSmall+1; wy++ {
				add([]int{wx, wy}, 1, 0)
			}
		}
		for _, w := range c07BigWidths {
			add([]int{w, w}, 1, 0)
			add([]int{w, vrt.Pick(r, []int{1, 8, w - 1})}, 1, 0)
			add([]int{vrt.Pick(r, []int{1, 8, w - 1}), w}, 1, 0)
		}
	case "log":
		add([]int{1, 1}, 1, 0)
	case "bit":
		for w := 1; w <= 9; w++ {
			for idx := 0; idx <= w+1; idx++ {
				add([]int{w}, 1, idx)
			}
		}
		for _, w := range []int{32, 64, 130} {
			for _, idx := range []int{0, 1, w / 2, w - 1, w, w + 7} {
				add([]int{w}, 1, idx)
			}
		}
	case "mux":
		for w := 1; w <= 5; w++ {
			add([]int{1, w, w}, w, 0)
		}
		for _, w := range []int{16, 33, 64, 130} {
			add([]int{1, w, w}, w, 0)
		}
		add([]int{1, 3, 5}, 5, 0)
		add([]int{1, 5, 3}, 5, 0)
	case "index":
		for _, es := range []int{1, 2, 3, 8} {
			for n := 1; n <= 9; n++ {
				for _, iw := range []int{1, 2, 3, 4, 5} {
					if es*n+iw <= 20 || (es == 8 && n <= 5 && iw <= 3) {
						add([]int{es * n, iw}, es, es)
					}
				}
			}
		}
		add([]int{8 * 16, 4}, 8, 8)
		add([]int{32 * 5, 3}, 32, 32)
	}
	// this chunk's share
	var mine []c07Tuple
	for i, t := range out {
		if i%chunks == chunk {
			mine = append(mine, t)
		}
	}
	return mine
}

const c07Chunks = 4

func init() {
	vrt.Register(&vrt.Prop{
		ID: "C07", Level: "exploration",
		Rule: "a tuple = (builder, operand widths, result width, target Yao/GMW, call mode A = builder writes into the flagged output wires as mpa.bin and the streaming path do / B = into ordinary wires copied to the outputs as ssa.Program.Circuit does, with or without ConstPropagate+Prune); " +
			"all width pairs 1..5 (quick) or 1..8 (thorough) x result widths {max-1, max, max+1, 2max, 2max+3}, plus widths 15..130, Karatsuba thresholds and explicit limits; operands exhaustive when they total <= 12 bits, else 192 boundary/random vectors, evaluated 64 at a time by the bit-sliced reference evaluator and compared with math/big mod 2^wr " +
			"(signed quotient truncates, signed remainder is |a| mod |b|, divisor 0 and out-of-range index excluded). Distinct non-trivial = tuples that were built and judged on at least one operand vector.",
		Assumptions: []string{"math/big is exact", "refc is the meaning of a circuit"},
		NumCases:    func(t string) int { return len(c07Specs) * 2 * 2 * c07Chunks },
		Run:         runC07,
	})
}

// runC07: most cases run alone; some run as 2-3 concurrent sessions of the
// same case shape in one process (package-level state in the code under test).
func runC07(cs *vrt.Case) {
	if cs.Idx%8 == 7 {
		cs.Twins(2, func(sub *vrt.Case, _ *vrt.Rng) { runC07One(sub) })
		return
	}
	runC07One(cs)
}

func runC07One(cs *vrt.Case) {
	r := cs.Rng
	i := cs.Idx
	chunk := i % c07Chunks
	i /= c07Chunks
	modeB := i%2 == 1
	i /= 2
	target := utils.Target(i % 2)
	i /= 2
	spec := &c07Specs[i]
	ts := c07Tuples(r, spec, target, modeB, cs.Thorough(), chunk, c07Chunks)
	for _, t := range ts {
		c07Check(cs, r, t)
	}
	if len(ts) > 0 {
		cs.SetSample(map[string]any{"builder": spec.name, "target": target.String(), "mode": map[bool]string{false: "A", true: "B"}[modeB], "tuples": len(ts), "first": ts[0].String(), "last": ts[len(ts)-1].String()})
	}
}
