package props

import (
	"sync"

	"github.com/markkurossi/mpc/ot"
	"github.com/markkurossi/mpc/p2p"

	"verifharness/internal/otx"
	"verifharness/internal/tap"
	"verifharness/internal/vrt"
)

// duplex is a connected pair of ot.IO endpoints plus the way to end them.
type duplex struct {
	A, B   ot.IO
	doneA  func() // called when party A returned
	doneB  func()
	finish func() // releases everything (idempotent)
	link   *tap.Link
	connA  *p2p.Conn
	connB  *p2p.Conn
}

// newDuplex builds a transport: kind 0 = ot.Pipe, 1 = otx.BufIO,
// 2 = p2p.Conn over a tap link (frag/delay from rng), 3 = p2p.Pipe.
func newDuplex(r *vrt.Rng, kind int, record bool) *duplex {
	switch kind {
	case 0:
		a, b := ot.NewPipe()
		d := &duplex{A: a, B: b}
		d.doneA = func() { a.Close(); go a.Drain() }
		d.doneB = func() { b.Close(); go b.Drain() }
		d.finish = func() {}
		return d
	case 1:
		a, b := otx.NewBufIOPair()
		d := &duplex{A: a, B: b}
		d.doneA = func() { a.Close() }
		d.doneB = func() { b.Close() }
		d.finish = func() {}
		return d
	case 3:
		a, b := p2p.Pipe()
		d := &duplex{A: a, B: b, connA: a, connB: b}
		var oa, ob sync.Once
		d.doneA = func() { oa.Do(func() { go a.Close() }) }
		d.doneB = func() { ob.Do(func() { go b.Close() }) }
		d.finish = func() { d.doneA(); d.doneB() }
		return d
	default:
		l := tap.NewLink(r, record)
		l.SetFrag(r.Intn(5), []int{0, 0, 10, 50}[r.Intn(4)], r.Bool())
		a, b := p2p.NewConn(l.A), p2p.NewConn(l.B)
		d := &duplex{A: a, B: b, link: l, connA: a, connB: b}
		var oa, ob sync.Once
		d.doneA = func() { oa.Do(func() { a.Close(); l.A.Close() }) }
		d.doneB = func() { ob.Do(func() { b.Close(); l.B.Close() }) }
		d.finish = func() { d.doneA(); d.doneB(); l.Stop() }
		return d
	}
}

type partyResult struct {
	err error
	pan *vrt.PanicInfo
}

// runPair runs the two parties concurrently; when one returns its side of the
// transport is closed (flushing first), so the peer cannot block for ever on
// a dead partner.
func runPair(d *duplex, fa, fb func() error) (ra, rb partyResult) {
	var wg sync.WaitGroup
	wg.Add(2)
	go func() {
		defer wg.Done()
		ra.pan = vrt.Guard(func() { ra.err = fa() })
		d.doneA()
	}()
	go func() {
		defer wg.Done()
		rb.pan = vrt.Guard(func() { rb.err = fb() })
		d.doneB()
	}()
	wg.Wait()
	d.finish()
	return
}
