package props

import (
	"bytes"
	"errors"
	"io"
	"math/big"
	"runtime/pprof"
	"sort"
	"strings"
	"sync"
	"time"

	"github.com/markkurossi/mpc/circuit"
	"github.com/markkurossi/mpc/compiler"
	"github.com/markkurossi/mpc/compiler/utils"
	"github.com/markkurossi/mpc/env"
	"github.com/markkurossi/mpc/ot"
	"github.com/markkurossi/mpc/p2p"

	"verifharness/internal/otx"
	"verifharness/internal/tap"
	"verifharness/internal/vrt"
)

// duplex is a connected pair of ot.IO endpoints plus the way to end them.
type duplex struct {
	A, B   ot.IO
	doneA  func() // called when party A returned
	doneB  func()
	finish func() // releases everything (idempotent)
	link   *tap.Link
	connA  *p2p.Conn
	connB  *p2p.Conn
}

// newDuplex builds a transport: kind 0 = ot.Pipe, 1 = otx.BufIO,
// 2 = p2p.Conn over a tap link (frag/delay from rng), 3 = p2p.Pipe.
func newDuplex(r *vrt.Rng, kind int, record bool) *duplex {
	switch kind {
	case 0:
		a, b := ot.NewPipe()
		d := &duplex{A: a, B: b}
		d.doneA = func() { a.Close(); go a.Drain() }
		d.doneB = func() { b.Close(); go b.Drain() }
		d.finish = func() {}
		return d
	case 1:
		a, b := otx.NewBufIOPair()
		d := &duplex{A: a, B: b}
		d.doneA = func() { a.Close() }
		d.doneB = func() { b.Close() }
		d.finish = func() {}
		return d
	case 3:
		a, b := p2p.Pipe()
		d := &duplex{A: a, B: b, connA: a, connB: b}
		var oa, ob sync.Once
		d.doneA = func() { oa.Do(func() { go a.Close() }) }
		d.doneB = func() { ob.Do(func() { go b.Close() }) }
		d.finish = func() { d.doneA(); d.doneB() }
		return d
	default:
		l := tap.NewLink(r, record)
		l.SetFrag(r.Intn(5), []int{0, 0, 10, 50}[r.Intn(4)], r.Bool())
		a, b := p2p.NewConn(l.A), p2p.NewConn(l.B)
		d := &duplex{A: a, B: b, link: l, connA: a, connB: b}
		var oa, ob sync.Once
		d.doneA = func() { oa.Do(func() { a.Close(); l.A.Close() }) }
		d.doneB = func() { ob.Do(func() { b.Close(); l.B.Close() }) }
		d.finish = func() { d.doneA(); d.doneB(); l.Stop() }
		return d
	}
}

type partyResult struct {
	err error
	pan *vrt.PanicInfo
}

// errDeadlock is the result of a party that was still parked when runPair
// positively observed a quiescent deadlock of the session.
var errDeadlock = errors.New("harness: quiescent deadlock (all party goroutines parked, unchanged across two dumps)")

// runPair runs the two parties concurrently; when one returns its side of the
// transport is closed (flushing first), so the peer cannot block for ever on
// a dead partner. If neither progress nor completion is seen for 20 s, two
// goroutine dumps 3 s apart are compared: when every party goroutine of the
// process is parked in a channel/condition/IO wait in both, with identical
// headers, the session is a deadlock - the transports are torn down, parties
// still parked get errDeadlock and their goroutines are abandoned.
func runPair(d *duplex, fa, fb func() error) (ra, rb partyResult) {
	var mu sync.Mutex
	var fin [2]bool
	done := make(chan struct{}, 2)
	run := func(i int, f func() error, res *partyResult, closeSide func()) {
		var r partyResult
		r.pan = vrt.Guard(func() { r.err = f() })
		mu.Lock()
		if !fin[i] {
			*res, fin[i] = r, true
		}
		mu.Unlock()
		closeSide()
		done <- struct{}{}
	}
	go run(0, fa, &ra, d.doneA)
	go run(1, fb, &rb, d.doneB)
	left, idle := 2, 0
	prev := ""
	for left > 0 {
		select {
		case <-done:
			left--
			idle = 0
		case <-time.After(time.Second):
			idle++
			if idle < 20 {
				continue
			}
			var b1, b2 bytes.Buffer
			pprof.Lookup("goroutine").WriteTo(&b1, 2)
			h1, q1 := partyHeaders(b1.String())
			if !q1 {
				idle = 10
				continue
			}
			if prev == "" || prev != h1 {
				prev = h1
				idle = 17 // look again in 3 s
				continue
			}
			pprof.Lookup("goroutine").WriteTo(&b2, 2)
			if h2, q2 := partyHeaders(b2.String()); !q2 || h2 != h1 {
				prev, idle = "", 10
				continue
			}
			mu.Lock()
			if !fin[0] {
				ra, fin[0] = partyResult{err: errDeadlock}, true
			}
			if !fin[1] {
				rb, fin[1] = partyResult{err: errDeadlock}, true
			}
			mu.Unlock()
			left = 0
		}
	}
	d.finish()
	return
}

// partyHeaders extracts the header lines of all goroutines that run a party
// function of runPair and tells whether all of them are parked.
func partyHeaders(dump string) (string, bool) {
	var hs []string
	for _, g := range strings.Split(dump, "\n\n") {
		if !strings.Contains(g, "props.runPair.func") {
			continue
		}
		head := g
		if i := strings.IndexByte(g, '\n'); i > 0 {
			head = g[:i]
		}
		parked := false
		for _, st := range []string{"sync.Cond.Wait", "IO wait", "chan receive", "chan send", "select", "semacquire", "sync.WaitGroup.Wait", "sync.Mutex.Lock"} {
			if strings.Contains(head, st) {
				parked = true
			}
		}
		if !parked {
			return "", false
		}
		// goroutine id and state without the minutes counter
		if i := strings.Index(head, ","); i > 0 {
			head = head[:i]
		}
		hs = append(hs, head)
	}
	sort.Strings(hs)
	return strings.Join(hs, "|"), len(hs) > 0
}

// ---- two-party garbled-circuit sessions ------------------------------------

// yaoOpts configures one whole-circuit session.
type yaoOpts struct {
	ot       int // 0 CO, 1 COT semi-honest, 2 COT malicious, 3 RSA-1024
	kind     int // duplex kind (2 tap, 3 p2p.Pipe)
	record   bool
	stallWin time.Duration   // >0: stall detector on the tap link
	prepare  func(d *duplex) // e.g. install faults
	// randSeed != 0: the garbler's entropy (env.Config.Rand) is the PRNG stream
	// of this seed, so that two sessions draw the same key and offset;
	// randFailAfter > 0: that source fails after so many bytes.
	randSeed      uint64
	randFailAfter int
	// shortReads > 0: the garbler's entropy source returns at most so many
	// bytes per Read call (as a bufio.Reader or a pipe in front of the real
	// source does): the byte stream is the same, only its delivery differs
	shortReads int
	// verbose: the parties' verbose flag (and Params.Verbose of the streaming compiler)
	verbose bool
	// cc: the garbler's Compiler instance (nil = a fresh one); it must have
	// been created with the params handed to runStream
	cc *compiler.Compiler
	// srcName: the source name handed to Compiler.Stream (a path makes
	// native("x.circ") resolve next to it); "" = "{data}"
	srcName string
}

// shortReader delivers the stream of r at most max bytes per call.
type shortReader struct {
	r   io.Reader
	max int
}

func (s *shortReader) Read(p []byte) (int, error) {
	if len(p) > s.max {
		p = p[:s.max]
	}
	return s.r.Read(p)
}

func (o yaoOpts) entropy(r *vrt.Rng) io.Reader {
	if o.shortReads > 0 {
		o2 := o
		o2.shortReads = 0
		return &shortReader{r: o2.entropy(r), max: o.shortReads}
	}
	if o.randSeed == 0 {
		return r.Fork()
	}
	src := vrt.NewRng(o.randSeed)
	if o.randFailAfter > 0 {
		return &failingReader{r: src, left: o.randFailAfter}
	}
	return src
}

type yaoOut struct {
	g, e    partyResult
	gRes    []*big.Int
	eRes    []*big.Int
	d       *duplex
	rec     *otx.Recorder // around the garbler's OT
	erec    *otx.Recorder // around the evaluator's OT
	stalled bool
	otName  string
}

func mkOT(r *vrt.Rng, kind int) (ot.OT, string) {
	switch kind {
	case 1:
		return ot.NewCOT(ot.NewCO(r.Fork()), r.Fork(), false, false), "COT"
	case 2:
		return ot.NewCOT(ot.NewCO(r.Fork()), r.Fork(), true, false), "COT-malicious"
	case 3:
		return ot.NewRSA(r.Fork(), 1024), "RSA-1024"
	default:
		return ot.NewCO(r.Fork()), "CO"
	}
}

// runYao runs circuit.Garbler against circuit.Evaluator. The garbler is
// endpoint A (direction 0 is garbler -> evaluator).
func runYao(r *vrt.Rng, c *circuit.Circuit, x, y *big.Int, o yaoOpts) *yaoOut {
	out := &yaoOut{}
	d := newDuplex(r, o.kind, o.record)
	out.d = d
	if o.prepare != nil {
		o.prepare(d)
	}
	if d.link != nil && o.stallWin > 0 {
		d.link.Watch(o.stallWin, 2)
	}
	gi, name := mkOT(r, o.ot)
	ei, _ := mkOT(r, o.ot)
	out.otName = name
	out.rec = &otx.Recorder{Inner: gi}
	out.erec = &otx.Recorder{Inner: ei}
	cfg := &env.Config{Rand: o.entropy(r)}
	out.g, out.e = runPair(d, func() (err error) {
		out.gRes, err = circuit.Garbler(cfg, d.connA, out.rec, c, x, o.verbose)
		return
	}, func() (err error) {
		out.eRes, err = circuit.Evaluator(d.connB, out.erec, c, y, o.verbose)
		return
	})
	if d.link != nil {
		out.stalled = d.link.Stalled()
	}
	return out
}

// ---- streaming sessions -----------------------------------------------------

type streamOut struct {
	g, e       partyResult
	gIO, eIO   circuit.IO
	gRes, eRes []*big.Int
	d          *duplex
	rec        *otx.Recorder
	stalled    bool
	otName     string
}

// runStream runs Compiler.Stream (garbler, endpoint A) against
// circuit.StreamEvaluator (endpoint B), exchanging input sizes first as
// apps/garbled does.
func runStream(r *vrt.Rng, src string, params *utils.Params, gIn, eIn []string, o yaoOpts) *streamOut {
	out := &streamOut{}
	d := newDuplex(r, o.kind, o.record)
	out.d = d
	if o.prepare != nil {
		o.prepare(d)
	}
	if d.link != nil && o.stallWin > 0 {
		d.link.Watch(o.stallWin, 2)
	}
	gi, name := mkOT(r, o.ot)
	ei, _ := mkOT(r, o.ot)
	out.otName = name
	out.rec = &otx.Recorder{Inner: gi}
	if params == nil {
		params = utils.NewParams()
	}
	params.Config = &env.Config{Rand: o.entropy(r)}
	if o.verbose {
		params.Verbose = true
	}
	out.g, out.e = runPair(d, func() (err error) {
		sizes, err := circuit.InputSizes(gIn)
		if err != nil {
			return err
		}
		peer, err := d.connA.ReceiveInputSizes()
		if err != nil {
			return err
		}
		name := o.srcName
		if name == "" {
			name = "{data}"
		}
		cc := o.cc
		if cc == nil {
			cc = compiler.New(params)
		}
		out.gIO, out.gRes, err = cc.Stream(d.connA, out.rec, name, strings.NewReader(src), gIn, [][]int{sizes, peer})
		return err
	}, func() (err error) {
		sizes, err := circuit.InputSizes(eIn)
		if err != nil {
			return err
		}
		if err = d.connB.SendInputSizes(sizes); err != nil {
			return err
		}
		if err = d.connB.Flush(); err != nil {
			return err
		}
		out.eIO, out.eRes, err = circuit.StreamEvaluator(d.connB, ei, eIn, nil, o.verbose)
		return err
	})
	if d.link != nil {
		out.stalled = d.link.Stalled()
	}
	return out
}
