package props

import (
	"fmt"
	"math/big"
	"os"
	"strings"
	"time"

	"github.com/markkurossi/mpc/circuit"
	"github.com/markkurossi/mpc/compiler/utils"

	"verifharness/internal/mpclgen"
	"verifharness/internal/refc"
	"verifharness/internal/vrt"
)

type c09Config struct {
	prune  bool
	thresh int
	target utils.Target
}

func (c c09Config) String() string {
	return fmt.Sprintf("%s/prune=%v/mult=%d", c.target, c.prune, c.thresh)
}

func c09Configs() []c09Config {
	var out []c09Config
	for _, pr := range []bool{false, true} {
		for _, th := range []int{0, 8, 16, 21, 40, 1000} {
			out = append(out, c09Config{pr, th, utils.TargetYao})
		}
		out = append(out, c09Config{pr, 0, utils.TargetGMW})
	}
	return out
}

func c09Compile(src string, cfg c09Config, sizes [][]int) (*circuit.Circuit, error, *vrt.PanicInfo) {
	p := utils.NewParams()
	p.OptPruneGates = cfg.prune
	p.CircMultArrayTreshold = cfg.thresh
	p.Target = cfg.target
	c, err, pan := compileMPCL(src, p, sizes)
	if err == nil && pan == nil && cfg.target == utils.TargetGMW {
		if pi := vrt.Guard(func() { c.AssignLevels(utils.TargetGMW) }); pi != nil {
			return nil, nil, pi
		}
	}
	return c, err, pan
}

var c09GenCfg = mpclgen.Config{Arrays: true, Structs: true, Funcs: true, Loops: true, Division: true, Mult: true, NoConst: true,
	Widths: []int{1, 2, 3, 7, 8, 9, 15, 16, 17, 22, 31, 32, 33, 41, 48, 63, 64, 65, 100, 128}}

func init() {
	vrt.Register(&vrt.Prop{
		ID: "C09", Level: "exploration",
		Rule: "case = one program (generated, with multiplications wider than each threshold, divisions, constant operands and pass-through outputs; or a shipped lang/math test program) compiled under 14 configurations {prune off/on} x {CircMultArrayTreshold 0,8,16,21,40,1000} x Yao plus {prune off/on} x GMW (with AssignLevels). " +
			"Oracle: the reference evaluation of every configuration's circuit is identical on the same input vectors (all inputs when <= 10 bits, else 32 boundary/random vectors) and, for generated programs, equal to the reference interpreter. Distinct = hash(program); non-trivial = at least two configurations produced different gate lists.",
		NumCases: func(t string) int {
			if t == "thorough" {
				return 2500
			}
			return 110
		},
		CaseTimeout: 6 * time.Minute,
		Run:         runC09,
		Finalize: func(a *vrt.Agg) error {
			if a.Counters["programs_where_configs_differ_structurally"] == 0 {
				return fmt.Errorf("no program had two structurally different circuits")
			}
			return nil
		},
	})
}

func runC09(cs *vrt.Case) {
	r := cs.Rng
	var src, what string
	var prog *mpclgen.Program
	var sizes [][]int
	files := testsuiteTwoParty()
	if cs.Idx%10 == 9 && len(files) > 0 {
		f := files[(cs.Idx/10)%len(files)]
		b, _ := os.ReadFile(f)
		src, what = string(b), "testsuite "+strings.TrimPrefix(f, "/repo/")
	} else {
		cfg := c09GenCfg
		if cs.Idx%2 == 1 {
			cfg.Division = false
		}
		prog = mpclgen.Generate(r, cfg)
		src, what = prog.Src, "generated"
	}
	cfgs := c09Configs()
	var circs []*circuit.Circuit
	desc := map[string]any{"kind": what, "program": src}
	cs.SetSample(map[string]any{"kind": what, "program": trunc(src, 1000)})
	for _, cf := range cfgs {
		c, err, pan := c09Compile(src, cf, sizes)
		if pan != nil {
			if !pan.InMPC {
				cs.Inconc("harness panic " + pan.Value)
				return
			}
			cs.Violate("C09|compile-panic|"+cf.target.String()+"|"+pan.Frame, fmt.Sprintf("compiling under %s panicked: %s", cf, pan.Value), map[string]any{"case": desc, "config": cf.String(), "stack": pan.Stack})
			return
		}
		if err != nil {
			if len(circs) == 0 {
				cs.Count("rejected_programs", 1)
				return
			}
			cs.Violate("C09|config-dependent-rejection|"+cf.target.String(), fmt.Sprintf("program compiles under %s but not under %s: %v", cfgs[0], cf, err), map[string]any{"case": desc})
			return
		}
		circs = append(circs, c)
	}
	base := circs[0]
	nin := base.Inputs.Size()
	var vecs []*big.Int
	var vvals [][]mpclgen.Val
	if prog != nil {
		vvals, _ = genVectors(r, prog.ArgT, 32)
		for _, v := range vvals {
			vecs = append(vecs, flattenArgs(v))
		}
	} else {
		vecs, _ = allOrSampled(r, nin, 10, 32)
	}
	var outs [][]*big.Int
	structural := map[string]bool{}
	for i, c := range circs {
		if c.Inputs.Size() != nin || c.Outputs.Size() != base.Outputs.Size() {
			cs.Violate("C09|signature", fmt.Sprintf("configuration %s changes the circuit's signature", cfgs[i]), map[string]any{"case": desc})
			return
		}
		o, err := refc.EvalFlat(c, vecs)
		if err != nil {
			cs.Violate("C09|malformed-circuit|"+cfgs[i].target.String(), fmt.Sprintf("circuit compiled under %s cannot be evaluated: %v", cfgs[i], err), map[string]any{"case": desc})
			return
		}
		outs = append(outs, o)
		structural[fmt.Sprint(c.NumGates, c.NumWires, c.Stats[circuit.AND], c.Stats[circuit.XOR])] = true
	}
	if len(structural) > 1 {
		cs.Count("programs_where_configs_differ_structurally", 1)
		cs.Keys = append(cs.Keys, vrt.Hash64(src))
	}
	cs.Seen("program_kinds", strings.Fields(what)[0])
	// interpreter (generated programs): the reference for "meaning"
	var want []*big.Int
	if prog != nil {
		for _, v := range vvals {
			res, err := prog.Run(v)
			if err != nil {
				cs.Inconc("interpreter: " + err.Error())
				return
			}
			want = append(want, flattenArgs(res))
		}
	} else {
		want = outs[0]
	}
	hasDiv := strings.Contains(src, " / ") || strings.Contains(src, " % ")
	for i := range circs {
		for k := range vecs {
			cs.Evals++
			if outs[i][k].Cmp(want[k]) == 0 {
				continue
			}
			// does the baseline (Yao, no prune, table threshold) agree with the meaning?
			baseOK := outs[0][k].Cmp(want[k]) == 0
			cf := cfgs[i]
			key := "C09|" + cf.target.String()
			switch {
			case !baseOK && prog != nil:
				key = "C09|baseline-differs-from-semantics" // C03's business, reported here too
			case cf.target == utils.TargetGMW && hasDiv:
				key += "|program-with-division"
			case cf.prune:
				key += fmt.Sprintf("|prune")
			default:
				key += fmt.Sprintf("|mult-threshold")
			}
			d := map[string]any{"case": desc, "config": cf.String(), "input": vecs[k].Text(16), "got": outs[i][k].Text(16), "want": want[k].Text(16)}
			if prog != nil {
				d["inputs"] = argStrings(vvals[k])
			}
			cs.Violate(key, fmt.Sprintf("configuration %s changes the program's result (input %s): %s instead of %s", cf, vecs[k].Text(16), outs[i][k].Text(16), want[k].Text(16)), d)
			return
		}
	}
}
