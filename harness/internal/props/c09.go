package props

import (
	"fmt"
	"math/big"
	"os"
	"strings"
	"time"

	"github.com/markkurossi/mpc/circuit"
	"github.com/markkurossi/mpc/compiler/utils"

	"verifharness/internal/mpclgen"
	"verifharness/internal/refc"
	"verifharness/internal/vrt"
)

type c09Config struct {
	prune  bool
	thresh int
	target utils.Target
}

func (c c09Config) String() string {
	return fmt.Sprintf("%s/prune=%v/mult=%d", c.target, c.prune, c.thresh)
}

func c09Configs() []c09Config {
	var out []c09Config
	for _, pr := range []bool{false, true} {
		for _, th := range []int{0, 8, 16, 21, 40, 1000} {
			out = append(out, c09Config{pr, th, utils.TargetYao})
		}
		out = append(out, c09Config{pr, 0, utils.TargetGMW})
	}
	return out
}

func c09Compile(src string, cfg c09Config, sizes [][]int) (*circuit.Circuit, error, *vrt.PanicInfo) {
	p := utils.NewParams()
	p.OptPruneGates = cfg.prune
	p.CircMultArrayTreshold = cfg.thresh
	p.Target = cfg.target
	c, err, pan := compileMPCL(src, p, sizes)
	if err == nil && pan == nil && cfg.target == utils.TargetGMW {
		if pi := vrt.Guard(func() { c.AssignLevels(utils.TargetGMW) }); pi != nil {
			return nil, nil, pi
		}
	}
	return c, err, pan
}

var c09GenCfg = mpclgen.Config{Arrays: true, Structs: true, Funcs: true, Loops: true, Division: true, Mult: true, NoConst: true,
	Widths: []int{1, 2, 3, 7, 8, 9, 15, 16, 17, 22, 31, 32, 33, 41, 48, 63, 64, 65, 100, 128}}

func init() {
	vrt.Register(&vrt.Prop{
		ID: "C09", Level: "exploration",
		Rule: "case = one program (generated, with multiplications wider than each threshold, divisions, constant operands and pass-through outputs; or a shipped lang/math test program) a deep compare-and-subtract loop whose longest path exceeds 2^16 gates; or a one-operator template `a op b` at one of 30 widths evaluated on all operand pairs (<= 8 bits) or on all edge pairs + 64 carry chains + 64 random pairs) compiled under 14 configurations {prune off/on} x {CircMultArrayTreshold 0,8,16,21,40,1000} x Yao plus {prune off/on} x GMW (with AssignLevels). " +
			"Oracle: the reference evaluation of every configuration's circuit is identical on the same input vectors (all inputs when <= 10 bits, else 32 boundary/random vectors) and, for generated programs, equal to the reference interpreter. Distinct = hash(program); non-trivial = at least two configurations produced different gate lists.",
		NumCases: func(t string) int {
			if t == "thorough" {
				return 3600
			}
			return 130
		},
		CaseTimeout: 6 * time.Minute,
		MaxWorkers:  10,
		Run:         runC09,
		Finalize: func(a *vrt.Agg) error {
			if a.Counters["programs_where_configs_differ_structurally"] == 0 {
				return fmt.Errorf("no program had two structurally different circuits")
			}
			return nil
		},
	})
}

// c09TemplateVectors: all operand pairs up to 8 bits per operand, otherwise
// every pair of edge operands plus carry-chain and random pairs.
func c09TemplateVectors(r *vrt.Rng, w int) []*big.Int {
	var vecs []*big.Int
	join := func(a, b *big.Int) *big.Int { return new(big.Int).Or(a, new(big.Int).Lsh(b, uint(w))) }
	if w <= 8 {
		for v := 0; v < 1<<uint(2*w); v++ {
			vecs = append(vecs, big.NewInt(int64(v)))
		}
		return vecs
	}
	one := big.NewInt(1)
	mod := new(big.Int).Lsh(one, uint(w))
	max := new(big.Int).Sub(mod, one)
	half := new(big.Int).Rsh(mod, 1)
	edges := []*big.Int{new(big.Int), one, big.NewInt(2), big.NewInt(3), max, new(big.Int).Sub(max, one), half, new(big.Int).Sub(half, one), new(big.Int).Add(half, one)}
	for _, a := range edges {
		for _, b := range edges {
			vecs = append(vecs, join(a, b))
		}
	}
	for i := 0; i < 64; i++ {
		// a carry chain of random length at a random position: ones in a, a one at its foot in b
		lo := r.Intn(w)
		n := 1 + r.Intn(w-lo)
		a := new(big.Int).Lsh(new(big.Int).Sub(new(big.Int).Lsh(one, uint(n)), one), uint(lo))
		b := new(big.Int).Lsh(one, uint(lo))
		if r.Bool() {
			a, b = b, a
		}
		if r.Intn(3) == 0 {
			a.Xor(a, new(big.Int).And(r.Big(w), new(big.Int).Sub(new(big.Int).Lsh(one, uint(lo)), one)))
		}
		vecs = append(vecs, join(a, b))
	}
	for i := 0; i < 64; i++ {
		vecs = append(vecs, join(r.Big(w), r.Big(w)))
	}
	// small second operands (divisors) under random first operands
	for _, b := range []int64{1, 2, 3, 5, 7, 10, 13, 16, 100, 255, 256} {
		if big.NewInt(b).BitLen() < w {
			for i := 0; i < 3; i++ {
				vecs = append(vecs, join(r.Big(w), big.NewInt(b)))
			}
			vecs = append(vecs, join(max, big.NewInt(b)))
		}
	}
	return vecs
}

// c09DivClass classifies a wrong result of the template `a / b` or `a % b`
// (b != 0): the GMW divider is known to return a quotient that is off by
// at most 3 (C07's Goldschmidt finding); anything else is a different defect.
func c09DivClass(src string, w int, vec, got, want *big.Int) string {
	mod := new(big.Int).Lsh(big.NewInt(1), uint(w))
	mask := new(big.Int).Sub(mod, big.NewInt(1))
	b := new(big.Int).And(new(big.Int).Rsh(vec, uint(w)), mask)
	for k := int64(-3); k <= 3; k++ {
		if k == 0 {
			continue
		}
		if strings.Contains(src, "a / b") {
			x := new(big.Int).Add(want, big.NewInt(k))
			if x.And(x, mask).Cmp(got) == 0 {
				return "quotient-off-by-at-most-3"
			}
		} else {
			x := new(big.Int).Add(want, new(big.Int).Mul(b, big.NewInt(k)))
			x.Mod(x, mod)
			if x.Cmp(got) == 0 {
				return "remainder-of-quotient-off-by-at-most-3"
			}
		}
	}
	return "wrong-value"
}

// runC09: most cases run alone; some run as concurrent sessions of the same
// case shape in one process (package-level state in the code under test).
func runC09(cs *vrt.Case) {
	if cs.Idx%8 == 3 {
		cs.Twins(2, func(sub *vrt.Case, _ *vrt.Rng) { runC09One(sub) })
		return
	}
	runC09One(cs)
}

func runC09One(cs *vrt.Case) {
	r := cs.Rng
	var src, what string
	var prog *mpclgen.Program
	var sizes [][]int
	files := testsuiteTwoParty()
	if cs.Idx%10 == 9 && len(files) > 0 {
		f := files[(cs.Idx/10)%len(files)]
		b, _ := os.ReadFile(f)
		src, what = string(b), "testsuite "+strings.TrimPrefix(f, vrt.Repo+"/")
		if strings.Contains(src, " / ") || strings.Contains(src, " % ") {
			// shipped division programs do not guard b == 0, and x/0 has
			// no defined meaning (the Yao divider returns all ones, the
			// GMW one something else): not a target difference in the
			// sense of the property. Division is covered by the templates
			// and the generated programs, which guard the divisor.
			cs.Count("testsuite_division_programs_skipped", 1)
			return
		}
	} else if cs.Idx%65 == 7 {
		// a very deep circuit: 90-230 dependent rounds of compare and
		// subtract on 128/256-bit values (longest path well over 2^16 gates)
		w := vrt.Pick(r, []int{128, 256})
		rounds := r.Range(90, 120)
		if w == 128 {
			rounds = r.Range(180, 230)
		}
		src = fmt.Sprintf("package main\nfunc main(a, b uint%d) uint%d {\n\tx := a\n\ty := b\n\tfor i := 0; i < %d; i++ {\n\t\tif x > y {\n\t\t\tx = x - y\n\t\t} else {\n\t\t\ty = y - x\n\t\t}\n\t}\n\treturn x + y\n}\n", w, w, rounds)
		what = "deep"
		cs.Count("deep_programs", 1)
	} else if cs.Idx%10 == 4 {
		// division at widths above the exhaustive range, among them widths
		// that are not powers of two, with small divisors among the vectors:
		// the GMW divider normalises the divisor with a barrel shifter whose
		// select bits depend on the width
		k := cs.Idx / 10
		w := []int{10, 12, 24, 11, 13, 20, 14, 28, 15, 33, 17, 34}[k%12]
		op := []string{"a / b", "a % b"}[(k/12+k)%2]
		ty := []string{"uint", "int"}[(k/2)%2]
		if k%4 == 3 {
			// ... and every fourth one an exhaustively evaluated unsigned
			// division of 5-8 bits (the same programs as in the operator
			// templates below, whose failing inputs on the unchanged tree are
			// pinned): another failing input is a new witness
			w, ty = []int{8, 7, 6, 5}[(k/4)%4], "uint"
			op = []string{"a % b", "a / b"}[(k/16)%2]
		}
		src = fmt.Sprintf("package main\nfunc main(a, b %s%d) %s%d {\n\tif b == 0 {\n\t\treturn a\n\t}\n\treturn %s\n}\n", ty, w, ty, w, op)
		what = "template"
		cs.Count("template_programs", 1)
		cs.Count("division_templates_above_the_exhaustive_range", 1)
	} else if cs.Idx%10 == 8 || cs.Idx%10 == 3 {
		// one operator at one width, small widths exhaustively: the
		// builders the targets choose differ per width (ripple vs
		// Kogge-Stone adder, array vs Karatsuba vs Wallace multiplier,
		// restoring vs Goldschmidt divider)
		k := cs.Idx / 5
		ops := []string{"a + b", "a - b", "a * b", "a + b + 1", "b - a - 1", "a < b", "a >= b", "a / b", "a % b", "(a + b) * a", "a * a - b", "a - b + a"}
		op := ops[k%len(ops)]
		ws := []int{1, 2, 3, 4, 5, 6, 7, 8, 9, 10, 11, 12, 13, 14, 15, 17, 18, 23, 24, 25, 31, 33, 34, 47, 63, 65, 66, 96, 127, 129}
		w := ws[(k/len(ops)+k)%len(ws)]
		if (strings.Contains(op, "/") || strings.Contains(op, "%")) && w > 34 {
			// the GMW (Goldschmidt) divider grows to gigabytes of gates
			// beyond this; the builder itself is C07's subject at all widths
			w = []int{17, 18, 23, 24, 25, 31, 33, 34}[k%8]
		}
		ty := "uint"
		if (k/3)%2 == 1 {
			ty = "int"
			if w == 1 {
				w = 2
			}
		}
		rt := fmt.Sprintf("%s%d", ty, w)
		if strings.Contains(op, "<") || strings.Contains(op, ">") {
			rt = "bool"
		}
		tsrc := fmt.Sprintf("package main\nfunc main(a, b %s%d) %s {\n\treturn %s\n}\n", ty, w, rt, op)
		if strings.Contains(op, "/") || strings.Contains(op, "%") {
			tsrc = fmt.Sprintf("package main\nfunc main(a, b %s%d) %s {\n\tif b == 0 {\n\t\treturn a\n\t}\n\treturn %s\n}\n", ty, w, rt, op)
		}
		src, what = tsrc, "template"
		cs.Count("template_programs", 1)
	} else {
		cfg := c09GenCfg
		if cs.Idx%2 == 1 {
			cfg.Division = false
		}
		prog = mpclgen.Generate(r, cfg)
		src, what = prog.Src, "generated"
	}
	cfgs := c09Configs()
	var circs []*circuit.Circuit
	desc := map[string]any{"kind": what, "program": src}
	cs.SetSample(map[string]any{"kind": what, "program": trunc(src, 1000)})
	for _, cf := range cfgs {
		c, err, pan := c09Compile(src, cf, sizes)
		if pan != nil {
			if !pan.InMPC {
				cs.Inconc("harness panic " + pan.Value)
				return
			}
			cs.Violate("C09|compile-panic|"+cf.target.String()+"|"+pan.Frame, fmt.Sprintf("compiling under %s panicked: %s", cf, pan.Value), map[string]any{"case": desc, "config": cf.String(), "stack": pan.Stack})
			return
		}
		if err != nil {
			if len(circs) == 0 {
				cs.Count("rejected_programs", 1)
				return
			}
			cs.Violate("C09|config-dependent-rejection|"+cf.target.String(), fmt.Sprintf("program compiles under %s but not under %s: %v", cfgs[0], cf, err), map[string]any{"case": desc})
			return
		}
		circs = append(circs, c)
	}
	base := circs[0]
	nin := base.Inputs.Size()
	var vecs []*big.Int
	var vvals [][]mpclgen.Val
	if prog != nil {
		vvals, _ = genVectors(r, prog.ArgT, 32)
		for _, v := range vvals {
			vecs = append(vecs, flattenArgs(v))
		}
	} else if what == "deep" {
		vecs, _ = allOrSampled(r, nin, 0, 16)
	} else if what == "template" {
		vecs = c09TemplateVectors(r, nin/2)
	} else {
		vecs, _ = allOrSampled(r, nin, 10, 32)
	}
	var outs [][]*big.Int
	structural := map[string]bool{}
	for i, c := range circs {
		if c.Inputs.Size() != nin || c.Outputs.Size() != base.Outputs.Size() {
			cs.Violate("C09|signature", fmt.Sprintf("configuration %s changes the circuit's signature", cfgs[i]), map[string]any{"case": desc})
			return
		}
		o, err := refc.EvalFlat(c, vecs)
		if err != nil {
			cs.Violate("C09|malformed-circuit|"+cfgs[i].target.String(), fmt.Sprintf("circuit compiled under %s cannot be evaluated: %v", cfgs[i], err), map[string]any{"case": desc})
			return
		}
		outs = append(outs, o)
		structural[fmt.Sprint(c.NumGates, c.NumWires, c.Stats[circuit.AND], c.Stats[circuit.XOR])] = true
	}
	if len(structural) > 1 {
		cs.Count("programs_where_configs_differ_structurally", 1)
		cs.Keys = append(cs.Keys, vrt.Hash64(src))
	}
	cs.Seen("program_kinds", strings.Fields(what)[0])
	// interpreter (generated programs): the reference for "meaning"
	var want []*big.Int
	if prog != nil {
		for _, v := range vvals {
			res, err := prog.Run(v)
			if err != nil {
				cs.Inconc("interpreter: " + err.Error())
				return
			}
			want = append(want, flattenArgs(res))
		}
	} else {
		want = outs[0]
	}
	hasDiv := strings.Contains(src, " / ") || strings.Contains(src, " % ")
	if prog != nil {
		// the property relates the configurations to each other; whether the
		// default configuration implements the program is C03's question
		// (and C03's known findings): compare against the baseline then
		for k := range vecs {
			if outs[0][k].Cmp(want[k]) != 0 {
				cs.Count("programs_whose_baseline_differs_from_the_interpreter_C03s_business", 1)
				want = outs[0]
				break
			}
		}
	}
	reportedSig := map[string]bool{}
	for i := range circs {
		for k := range vecs {
			cs.Evals++
			if outs[i][k].Cmp(want[k]) == 0 {
				continue
			}
			// does the baseline (Yao, no prune, table threshold) agree with the meaning?
			baseOK := outs[0][k].Cmp(want[k]) == 0
			cf := cfgs[i]
			key := "C09|" + cf.target.String()
			switch {
			case !baseOK && prog != nil:
				key = "C09|baseline-differs-from-semantics" // C03's business, reported here too
			case cf.target == utils.TargetGMW && hasDiv && what == "template":
				key += "|template-division|" + c09DivClass(src, nin/2, vecs[k], outs[i][k], want[k])
			case cf.target == utils.TargetGMW && hasDiv && prog != nil:
				// is the division needed for the mismatch? drop statements
				// while this vector still shows it under this configuration
				budget := 300
				vk := vvals[k]
				differs := func(src string) bool {
					if budget <= 0 {
						return false
					}
					budget--
					c2, err, pan := c09Compile(src, cf, sizes)
					if err != nil || pan != nil || c2 == nil {
						return false
					}
					o2, err := refc.EvalFlat(c2, []*big.Int{vecs[k]})
					if err != nil {
						return false
					}
					res, err := prog.Run(vk)
					return err == nil && o2[0].Cmp(flattenArgs(res)) != 0
				}
				prog.Minimise(differs)
				desc["minimised_program"] = prog.Src
				if strings.Contains(prog.Src, " / ") || strings.Contains(prog.Src, " % ") {
					key += "|generated|mismatch-needs-the-division"
				} else {
					key += "|generated|mismatch-without-division"
				}
			case cf.prune:
				key += fmt.Sprintf("|prune")
			default:
				key += fmt.Sprintf("|mult-threshold")
			}
			d := map[string]any{"case": desc, "config": cf.String(), "input": vecs[k].Text(16), "got": outs[i][k].Text(16), "want": want[k].Text(16)}
			if prog != nil {
				d["inputs"] = argStrings(vvals[k])
			}
			// an exhaustively evaluated division template: the unchanged tree's
			// failing inputs of the known GMW-divider classes are pinned; another
			// failing input with the same signature is a new witness
			pinned := what == "template" && strings.Contains(key, "|template-division|") && !strings.HasSuffix(key, "wrong-value") && nin <= 16 && len(vecs) == 1<<uint(nin)
			if pinned {
				key = vrt.WitnessKey(key, fmt.Sprintf("%s|%s|%s|%s", strings.ReplaceAll(src, "\n", " "), cf, vecs[k].Text(16), outs[i][k].Text(16)))
			}
			// a mismatch with the signature of the known divider finding must not
			// hide the other vectors of the template: it is reported once per
			// configuration and the scan goes on (a mismatch of any other kind
			// ends the case)
			knownSig := what == "template" && strings.Contains(key, "|template-division|") && !strings.HasSuffix(key, "wrong-value")
			if !pinned && knownSig {
				if reportedSig[key+cf.String()] {
					continue
				}
				reportedSig[key+cf.String()] = true
			}
			cs.Violate(key, fmt.Sprintf("configuration %s changes the program's result (input %s): %s instead of %s", cf, vecs[k].Text(16), outs[i][k].Text(16), want[k].Text(16)), d)
			if pinned || knownSig {
				continue
			}
			return
		}
	}
}
