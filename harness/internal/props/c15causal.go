package props

import (
	"fmt"

	"github.com/markkurossi/mpc/ot"

	"verifharness/internal/otx"
	"verifharness/internal/vrt"
)

// c15Causal: a strictly causal tamperer over two malicious-mode batches on one
// sender/receiver pair. It never looks ahead and alters matrix bytes only, but
// it may use everything that already crossed the wire: from the challenge seed
// of batch 1 it predicts the challenge coefficients of batch 2 under a
// hypothesis (the old PRG stream continues; the old seed is used again), finds
// by Gaussian elimination over GF(2) a set S of rows whose predicted
// coefficients XOR to zero, and flips one Delta-selected column in exactly the
// rows S of batch 2's payload matrix. The challenge of a batch must be
// unpredictable when its matrix is sent, so on a correct implementation the
// prediction is worthless and the sender aborts (a multi-flip passes with
// probability 2^-128); a sender that accepts has outputs that break the
// correlation in every row of S.
func c15Causal(cs *vrt.Case, r *vrt.Rng) {
	if r.Bool() {
		switch r.Intn(3) {
		case 0:
			c15DeadEntropy(cs, r)
			return
		case 1:
			c15LaterBatch(cs, r)
			return
		}
		c15CausalCheckRows(cs, r)
		return
	}
	n1 := vrt.Pick(r, []int{8, 64, 100, 600})
	n2 := vrt.Pick(r, []int{200, 513, 600, 1100})
	b1, b2 := choiceVec(r, n1, 4), choiceVec(r, n2, 4)
	delta := ot.Label{D0: r.U64(), D1: r.U64()}
	col := r.Intn(128)
	delta.SetBit(col, 1) // the column the tamperer flips is one the sender's secret selects
	hyp := r.Intn(2)
	desc := map[string]any{"kind": "causal adaptive multi-flip over two batches", "n1": n1, "n2": n2, "column": col,
		"hypothesis": []string{"the challenge PRG of batch 1 continues", "the seed of batch 1 is used again"}[hyp]}
	cs.SetSample(desc)
	pay1 := (n1 + 511) / 512 // payload chunks of batch 1 (then one check chunk)
	pay2 := (n2 + 511) / 512

	run := func(tamper bool) (sent1, sent2, recv1, recv2 []ot.Label, serr, rerr error, pan *vrt.PanicInfo, rows []int, hits int) {
		bo1, bo2 := otx.NewIdealPair()
		io1, io2 := otx.NewBufIOPair()
		var seed1 *ot.Label
		var flipRows map[int]bool
		tio := &otx.TamperIO{IO: io1}
		tio.LabelHook = func(k int, l *ot.Label) {
			if k == 0 {
				c := *l
				seed1 = &c
			}
		}
		tio.DataHook = func(k int, chunk []byte) {
			first := pay1 + 1 // index of batch 2's first payload chunk
			if !tamper || k < first || k >= first+pay2 || seed1 == nil {
				return
			}
			if flipRows == nil {
				flipRows = map[int]bool{}
				st := ctrStream(*seed1)
				next := func() ot.Label {
					var buf [16]byte
					st.XORKeyStream(buf[:], buf[:])
					var l ot.Label
					l.SetBytes(buf[:])
					return l
				}
				if hyp == 0 {
					for i := 0; i < n1+256; i++ {
						next()
					}
				}
				chi := make([]ot.Label, n2)
				for i := range chi {
					chi[i] = next()
				}
				rows = zeroSubset(chi)
				for _, j := range rows {
					flipRows[j] = true
				}
			}
			br := len(chunk) / 128
			base := (k - first) * 512
			for j := range flipRows {
				if j >= base && j < base+br*8 && j < base+512 {
					rw := j - base
					chunk[col*br+rw/8] ^= 1 << uint(rw%8)
					hits++
				}
			}
		}
		recv1, recv2 = make([]ot.Label, n1), make([]ot.Label, n2)
		seedS, seedR := r.U64(), r.U64()
		d := &duplex{A: tio, B: io2, doneA: io1.Close, doneB: io2.Close, finish: func() {}}
		ra, rb := runPair(d, func() error {
			s, err := ot.NewIKNPSender(bo1, tio, vrt.NewRng(seedS), &delta)
			if err != nil {
				return err
			}
			if sent1, err = s.Send(n1, true); err != nil {
				return fmt.Errorf("batch 1: %w", err)
			}
			sent2, err = s.Send(n2, true)
			return err
		}, func() error {
			rc, err := ot.NewIKNPReceiver(bo2, io2, vrt.NewRng(seedR))
			if err != nil {
				return err
			}
			if err = rc.Receive(b1, recv1, true); err != nil {
				return err
			}
			return rc.Receive(b2, recv2, true)
		})
		return sent1, sent2, recv1, recv2, ra.err, rb.err, firstPanic(ra, rb), rows, hits
	}
	holds := func(sent, recv []ot.Label, b []bool) (bool, int) {
		o := c15Out{sent: sent, recv: recv}
		return correlationHolds(&o, b, delta)
	}

	// honest two-batch run: never an abort, correlation in both batches
	s1, s2, r1, r2, serr, rerr, pan, _, _ := run(false)
	cs.Evals++
	cs.Count("honest_runs", 1)
	if pan != nil {
		c15Panic(cs, pan, desc)
		return
	}
	if serr != nil || rerr != nil {
		cs.Violate("C15|honest-abort", fmt.Sprintf("honest run of two malicious-mode batches on one instance aborted: sender=%v receiver=%v", serr, rerr), map[string]any{"case": desc})
		return
	}
	if ok, i := holds(s1, r1, b1); !ok {
		cs.Violate("C15|honest-correlation", fmt.Sprintf("honest run breaks the correlation at %d (batch 1)", i), map[string]any{"case": desc})
		return
	}
	if ok, i := holds(s2, r2, b2); !ok {
		cs.Violate("C15|honest-correlation", fmt.Sprintf("honest run breaks the correlation at %d (batch 2 on one instance)", i), map[string]any{"case": desc})
		return
	}
	// tampered run
	s1, s2, r1, r2, serr, _, pan, rows, hits := run(true)
	cs.Evals++
	if pan != nil {
		c15Panic(cs, pan, desc)
		return
	}
	if len(rows) == 0 || hits != len(rows) {
		cs.Inconc(fmt.Sprintf("causal tamperer did not land its flips: %d rows, %d hits", len(rows), hits))
		return
	}
	cs.Key("causal", fmt.Sprint(n1, n2, col, hyp, rows[0], len(rows)))
	cs.Count("causal_multiflip_trials", 1)
	if serr != nil {
		cs.Count("aborted", 1)
		return
	}
	if ok, i := holds(s2, r2, b2); !ok {
		cs.Violate("C15|silent-inconsistent|causal-multiflip", fmt.Sprintf("sender accepted batch 2 (n=%d) with column %d flipped in %d rows chosen from the challenge seed of batch 1 (%s); position %d breaks the correlation", n2, col, len(rows), desc["hypothesis"], i),
			map[string]any{"case": desc, "rows": fmt.Sprint(rows), "delta": delta.String()})
		return
	}
	_ = s1
	_ = r1
	cs.Count("silent_consistent", 1)
}

// zeroSubset returns a non-empty set of indices whose labels XOR to zero
// (Gaussian elimination over GF(2); exists as soon as len(v) > 128).
func zeroSubset(v []ot.Label) []int {
	type row struct {
		vec ot.Label
		set []uint64
	}
	words := (len(v) + 63) / 64
	var basis [128]*row
	top := func(l ot.Label) int {
		for i := 127; i >= 0; i-- {
			if l.Bit(i) == 1 {
				return i
			}
		}
		return -1
	}
	for j := range v {
		cur := row{vec: v[j], set: make([]uint64, words)}
		cur.set[j/64] |= 1 << uint(j%64)
		for {
			t := top(cur.vec)
			if t < 0 {
				var out []int
				for k := 0; k < len(v); k++ {
					if cur.set[k/64]>>uint(k%64)&1 == 1 {
						out = append(out, k)
					}
				}
				return out
			}
			if basis[t] == nil {
				c := cur
				basis[t] = &c
				break
			}
			cur.vec.Xor(basis[t].vec)
			for w := range cur.set {
				cur.set[w] ^= basis[t].set[w]
			}
		}
	}
	return nil
}

// c15CausalCheckRows: a second causal strategy, within one batch. The tamperer
// flips one bit of the payload matrix blindly (a Delta-selected column, row j).
// Should a label cross the wire before the 256-row check matrix (a challenge
// disclosed too early), it takes the latest one for the challenge seed,
// regenerates the coefficients, solves over GF(2) for a set S of check rows
// whose coefficients XOR to the coefficient of row j, and flips the same column
// in those check rows: the two errors cancel in the sender's sum. When the
// challenge is only sent after the check matrix - as it must be - nothing is
// known at that point, the blind flip stands alone and the sender has to abort.
func c15CausalCheckRows(cs *vrt.Case, r *vrt.Rng) {
	n := vrt.Pick(r, []int{8, 64, 100, 513, 600})
	b := choiceVec(r, n, 4)
	delta := ot.Label{D0: r.U64(), D1: r.U64()}
	col := r.Intn(128)
	delta.SetBit(col, 1)
	row := r.Intn(n)
	nPay := (n + 511) / 512
	desc := map[string]any{"kind": "causal adaptive tamperer: blind payload flip cancelled in the check rows if a challenge was disclosed before them", "n": n, "column": col, "row": row}
	cs.SetSample(desc)
	var seen []ot.Label
	used := 0
	hits := 0
	o := c15Run(r, n, b, delta, func(k int, chunk []byte) {
		br := len(chunk) / 128
		if k < nPay {
			if row >= k*512 && row < k*512+512 {
				rw := row - k*512
				chunk[col*br+rw/8] ^= 1 << uint(rw%8)
				hits++
			}
			return
		}
		if k != nPay || len(seen) == 0 {
			return
		}
		st := ctrStream(seen[len(seen)-1])
		next := func() ot.Label {
			var buf [16]byte
			st.XORKeyStream(buf[:], buf[:])
			var l ot.Label
			l.SetBytes(buf[:])
			return l
		}
		var target ot.Label
		for i := 0; i < n; i++ {
			c := next()
			if i == row {
				target = c
			}
		}
		chk := make([]ot.Label, 256)
		for i := range chk {
			chk[i] = next()
		}
		for _, rw := range solveSubset(chk, target) {
			chunk[col*br+rw/8] ^= 1 << uint(rw%8)
			used++
		}
	}, func(k int, l *ot.Label) { seen = append(seen, *l) })
	cs.Evals++
	cs.Count("causal_check_row_trials", 1)
	if o.pan != nil {
		c15Panic(cs, o.pan, desc)
		return
	}
	if hits != 1 {
		cs.Inconc("blind flip did not land")
		return
	}
	cs.Key("causal-check", fmt.Sprint(n, col, row, used))
	if used > 0 {
		cs.Count("challenges_visible_before_the_check_matrix", 1)
	}
	if o.serr != nil {
		cs.Count("aborted", 1)
		return
	}
	if ok, i := correlationHolds(&o, b, delta); !ok {
		cs.Violate("C15|silent-inconsistent|causal-check-rows", fmt.Sprintf("sender accepted a payload flip at (column %d, row %d) that a causal tamperer cancelled in %d check rows computed from a challenge seed disclosed before the check matrix; position %d breaks the correlation (n=%d)", col, row, used, i, n),
			map[string]any{"case": desc, "delta": delta.String()})
		return
	}
	cs.Count("silent_consistent", 1)
}

// solveSubset returns indices S with XOR of vs[i], i in S, equal to target
// (nil when target is outside the span).
func solveSubset(vs []ot.Label, target ot.Label) []int {
	type row struct {
		vec ot.Label
		set []uint64
	}
	words := (len(vs) + 63) / 64
	var basis [128]*row
	top := func(l ot.Label) int {
		for i := 127; i >= 0; i-- {
			if l.Bit(i) == 1 {
				return i
			}
		}
		return -1
	}
	reduce := func(cur *row) int {
		for {
			t := top(cur.vec)
			if t < 0 || basis[t] == nil {
				return t
			}
			cur.vec.Xor(basis[t].vec)
			for w := range cur.set {
				cur.set[w] ^= basis[t].set[w]
			}
		}
	}
	for j := range vs {
		cur := &row{vec: vs[j], set: make([]uint64, words)}
		cur.set[j/64] |= 1 << uint(j%64)
		if t := reduce(cur); t >= 0 {
			basis[t] = cur
		}
	}
	cur := &row{vec: target, set: make([]uint64, words)}
	if reduce(cur) >= 0 {
		return nil
	}
	var out []int
	for k := range vs {
		if cur.set[k/64]>>uint(k%64)&1 == 1 {
			out = append(out, k)
		}
	}
	return out
}

// countingReader records the offset at which every Read call starts.
type countingReader struct {
	r      *vrt.Rng
	off    int
	starts []int
}

func (c *countingReader) Read(p []byte) (int, error) {
	c.starts = append(c.starts, c.off)
	c.off += len(p)
	return c.r.Read(p)
}

// c15DeadEntropy: the receiver's entropy source dies at the start of one of
// its last draws (the challenge seed is among them), and a tamperer who bets
// that the challenge seed is then the all-zero label flips one Delta-selected
// column in a set of rows whose coefficients under THAT seed XOR to zero. A
// receiver that cannot draw a fresh challenge has to give up; if it carries on
// with a predictable one, the sender accepts the altered matrix.
func c15DeadEntropy(cs *vrt.Case, r *vrt.Rng) {
	n := vrt.Pick(r, []int{200, 513, 600})
	b := choiceVec(r, n, 4)
	delta := ot.Label{D0: r.U64(), D1: r.U64()}
	col := r.Intn(128)
	delta.SetBit(col, 1)
	pay := (n + 511) / 512
	seedS, seedR := r.U64(), r.U64()
	// rows whose coefficients under the zero seed XOR to zero
	st := ctrStream(ot.Label{})
	chi := make([]ot.Label, n)
	for i := range chi {
		var buf [16]byte
		st.XORKeyStream(buf[:], buf[:])
		chi[i].SetBytes(buf[:])
	}
	rows := zeroSubset(chi)
	flip := map[int]bool{}
	for _, j := range rows {
		flip[j] = true
	}
	ctorDraws := 0 // draws the receiver's constructor makes (the base OTs run there, with both parties in step)
	run := func(dieAt int, tamper bool) (sent, recv []ot.Label, serr, rerr error, pan *vrt.PanicInfo, starts []int, hits int) {
		bo1, bo2 := otx.NewIdealPair()
		io1, io2 := otx.NewBufIOPair()
		tio := &otx.TamperIO{IO: io1}
		tio.DataHook = func(k int, chunk []byte) {
			if !tamper || k >= pay {
				return
			}
			br := len(chunk) / 128
			base := k * 512
			for j := range flip {
				if j >= base && j < base+br*8 && j < base+512 {
					rw := j - base
					chunk[col*br+rw/8] ^= 1 << uint(rw%8)
					hits++
				}
			}
		}
		recv = make([]ot.Label, n)
		cr := &countingReader{r: vrt.NewRng(seedR)}
		var src interface {
			Read([]byte) (int, error)
		} = cr
		if dieAt >= 0 {
			src = &failingReader{r: vrt.NewRng(seedR), left: dieAt}
		}
		d := &duplex{A: tio, B: io2, doneA: io1.Close, doneB: io2.Close, finish: func() {}}
		ra, rb := runPair(d, func() error {
			s, err := ot.NewIKNPSender(bo1, tio, vrt.NewRng(seedS), &delta)
			if err != nil {
				return err
			}
			sent, err = s.Send(n, true)
			return err
		}, func() error {
			rc, err := ot.NewIKNPReceiver(bo2, io2, src)
			if err != nil {
				return err
			}
			ctorDraws = len(cr.starts)
			return rc.Receive(b, recv, true)
		})
		return sent, recv, ra.err, rb.err, firstPanic(ra, rb), cr.starts, hits
	}
	desc := map[string]any{"kind": "tamperer betting on an all-zero challenge seed while the receiver's entropy source dies", "n": n, "column": col, "rows": len(rows)}
	cs.SetSample(desc)
	_, _, serr, rerr, pan, starts, _ := run(-1, false)
	firstReceiveDraw := ctorDraws
	cs.Evals++
	if pan != nil {
		c15Panic(cs, pan, desc)
		return
	}
	if serr != nil || rerr != nil {
		cs.Violate("C15|honest-abort", fmt.Sprintf("honest malicious-mode run aborted: sender=%v receiver=%v", serr, rerr), map[string]any{"case": desc})
		return
	}
	if len(starts) == 0 || len(rows) == 0 {
		cs.Inconc("no entropy draws or no zero-sum row set")
		return
	}
	// the source dies at the start of each of the receiver's last draws in turn
	for k := len(starts) - 1; k >= firstReceiveDraw && k >= len(starts)-4; k-- {
		sent, recv, serr, rerr, pan, _, hits := run(starts[k], true)
		cs.Evals++
		cs.Count("dead_entropy_zero_seed_trials", 1)
		if pan != nil {
			c15Panic(cs, pan, desc)
			return
		}
		if serr != nil || len(sent) != n {
			cs.Count("aborted", 1)
			continue
		}
		o := c15Out{sent: sent, recv: recv}
		if ok, i := correlationHolds(&o, b, delta); !ok {
			cs.Violate("C15|silent-inconsistent|dead-entropy-zero-seed", fmt.Sprintf("the receiver's entropy source died at byte %d (start of its draw %d of %d), the receiver went on (its error: %v), and the sender accepted a matrix with column %d flipped in %d rows chosen for an all-zero challenge seed (%d flips landed); position %d breaks the correlation", starts[k], k+1, len(starts), rerr, col, len(rows), hits, i),
				map[string]any{"case": desc, "delta": delta.String()})
			return
		}
		cs.Count("silent_consistent", 1)
	}
	cs.Key("dead-entropy", fmt.Sprint(n, col, len(rows), len(starts)))
}

// c15LaterBatch: several malicious-mode batches on one sender/receiver pair,
// among them small ones (at most 128 rows) after a batch whose check passed,
// and one bit of a LATER batch's payload matrix flipped in a Delta-selected
// column. Every batch has to be checked on its own: the sender aborts, or the
// outputs of every batch it accepted are consistent.
func c15LaterBatch(cs *vrt.Case, r *vrt.Rng) {
	nb := r.Range(2, 4)
	var ns []int
	var bs [][]bool
	for i := 0; i < nb; i++ {
		n := vrt.Pick(r, []int{8, 64, 100, 128, 129, 200, 600})
		if i == 0 && r.Bool() {
			n = vrt.Pick(r, []int{200, 600, 1100})
		}
		ns = append(ns, n)
		bs = append(bs, choiceVec(r, n, 4))
	}
	delta := ot.Label{D0: r.U64(), D1: r.U64()}
	col := r.Intn(128)
	delta.SetBit(col, 1)
	target := r.Range(1, nb-1) // the batch that is tampered with (never the first)
	row := r.Intn(ns[target])
	first := 0 // index of the target batch's first payload chunk among the data messages
	for i := 0; i < target; i++ {
		first += (ns[i]+511)/512 + 1
	}
	desc := map[string]any{"kind": "single flip in a later batch on one instance", "sizes": ns, "tampered_batch": target, "row": row, "column": col}
	cs.SetSample(desc)
	seedS, seedR := r.U64(), r.U64()
	run := func(tamper bool) (sent, recv [][]ot.Label, serr, rerr error, pan *vrt.PanicInfo, hits int) {
		bo1, bo2 := otx.NewIdealPair()
		io1, io2 := otx.NewBufIOPair()
		tio := &otx.TamperIO{IO: io1}
		tio.DataHook = func(k int, chunk []byte) {
			ck := first + row/512
			if !tamper || k != ck {
				return
			}
			br := len(chunk) / 128
			rw := row % 512
			if rw < br*8 {
				chunk[col*br+rw/8] ^= 1 << uint(rw%8)
				hits++
			}
		}
		sent, recv = make([][]ot.Label, nb), make([][]ot.Label, nb)
		for i := range recv {
			recv[i] = make([]ot.Label, ns[i])
		}
		d := &duplex{A: tio, B: io2, doneA: io1.Close, doneB: io2.Close, finish: func() {}}
		ra, rb := runPair(d, func() error {
			s, err := ot.NewIKNPSender(bo1, tio, vrt.NewRng(seedS), &delta)
			if err != nil {
				return err
			}
			for i := range ns {
				out, err := s.Send(ns[i], true)
				if err != nil {
					return fmt.Errorf("batch %d: %w", i, err)
				}
				sent[i] = out
			}
			return nil
		}, func() error {
			rc, err := ot.NewIKNPReceiver(bo2, io2, vrt.NewRng(seedR))
			if err != nil {
				return err
			}
			for i := range ns {
				if err := rc.Receive(bs[i], recv[i], true); err != nil {
					return fmt.Errorf("batch %d: %w", i, err)
				}
			}
			return nil
		})
		return sent, recv, ra.err, rb.err, firstPanic(ra, rb), hits
	}
	check := func(sent, recv [][]ot.Label) (int, int) {
		for i := range ns {
			if len(sent[i]) != ns[i] {
				continue // not accepted
			}
			o := c15Out{sent: sent[i], recv: recv[i]}
			if ok, p := correlationHolds(&o, bs[i], delta); !ok {
				return i, p
			}
		}
		return -1, 0
	}
	sent, recv, serr, rerr, pan, _ := run(false)
	cs.Evals++
	cs.Count("honest_runs", 1)
	if pan != nil {
		c15Panic(cs, pan, desc)
		return
	}
	if serr != nil || rerr != nil {
		cs.Violate("C15|honest-abort", fmt.Sprintf("honest run of %d malicious-mode batches %v on one instance aborted: sender=%v receiver=%v", nb, ns, serr, rerr), map[string]any{"case": desc})
		return
	}
	if i, p := check(sent, recv); i >= 0 {
		cs.Violate("C15|honest-correlation", fmt.Sprintf("honest run breaks the correlation at %d (batch %d of sizes %v)", p, i, ns), map[string]any{"case": desc})
		return
	}
	sent, recv, serr, _, pan, hits := run(true)
	cs.Evals++
	cs.Count("later_batch_flip_trials", 1)
	if pan != nil {
		c15Panic(cs, pan, desc)
		return
	}
	if hits != 1 {
		cs.Inconc(fmt.Sprintf("the flip did not land (%d hits)", hits))
		return
	}
	if serr != nil {
		cs.Count("aborted", 1)
	}
	if i, p := check(sent, recv); i >= 0 {
		cs.Violate("C15|silent-inconsistent|later-batch", fmt.Sprintf("the sender accepted batch %d (n=%d, after %d earlier batches on the instance) although row %d of its matrix was flipped in column %d; position %d breaks the correlation", i, ns[i], i, row, col, p),
			map[string]any{"case": desc, "delta": delta.String()})
		return
	}
	cs.Key("later-batch", fmt.Sprint(ns, target, row, col))
}
