package props

import (
	"bytes"
	"encoding/json"
	"fmt"
	"math/big"
	"os"
	"os/exec"
	"runtime"
	"runtime/debug"
	"strings"
	"syscall"
	"time"

	"github.com/markkurossi/mpc/circuit"

	"verifharness/internal/refc"
	"verifharness/internal/tap"
	"verifharness/internal/vrt"
)

// c16Config is one (mode, circuit/program, inputs, OT) whose clean run fixes
// the direction lengths.
type c16Config struct {
	name   string
	stream bool
	ot     int
	circ   *circuit.Circuit
	src    string
	x, y   *big.Int
	gIn    []string
	eIn    []string
	want   []*big.Int
	seed   uint64
	len    [2]int64
	// verbose: the parties run with their verbose flag set (diagnostics go
	// to the process's standard output)
	verbose bool
}

const c16StreamSrc = `package main
func main(a uint6, b uint6) (uint6, bool) {
	if a > b {
		return a - b, true
	}
	return a & b, false
}
`

const c16StreamRepeatSrc = `package main
func main(a uint8, b uint8) (uint16, uint8, uint8) {
	s := a + b
	return uint16(s) << 3, s, s >> 2
}
`

func c16Configs() []*c16Config {
	var out []*c16Config
	mk := func(seed uint64) *circuit.Circuit {
		r := vrt.NewRng(seed)
		sh := refc.Shape{Args: []int{3, 4}, Outs: []int{2, 3}, Gates: 14, Kind: int(seed % 4), SameP: 5}
		if seed%3 == 0 {
			sh.Outs = []int{1, 1, 2}
		}
		return refc.Gen(r, sh)
	}
	for i, otk := range []int{0, 1, 0, 2} {
		c := mk(uint64(100 + i))
		x, y := big.NewInt(int64(5+i)&7), big.NewInt(int64(9+3*i)&15)
		flat, _ := refc.EvalFlat(c, []*big.Int{refc.Flatten(c.Inputs, []*big.Int{x, y})})
		out = append(out, &c16Config{name: fmt.Sprintf("whole-circuit#%d/%s%s", i, []string{"CO", "COT", "COT-malicious"}[otk], []string{"", "/verbose"}[i%2]), ot: otk, circ: c, x: x, y: y,
			want: refc.SplitOut(c.Outputs, flat[0]), seed: uint64(7000 + i), verbose: i%2 == 1})
	}
	// a whole-circuit session with more than 64 result bits (90): result
	// positions beyond one machine word
	{
		r := vrt.NewRng(4242)
		sh := refc.Shape{Args: []int{6, 7}, Outs: []int{70, 20}, Gates: 120, Kind: 2, SameP: 3}
		c := refc.Gen(r, sh)
		x, y := big.NewInt(0x2b), big.NewInt(0x55)
		flat, _ := refc.EvalFlat(c, []*big.Int{refc.Flatten(c.Inputs, []*big.Int{x, y})})
		out = append(out, &c16Config{name: "whole-circuit#4/CO", ot: 0, circ: c, x: x, y: y, want: refc.SplitOut(c.Outputs, flat[0]), seed: 7004})
	}
	// a streaming program whose results repeat wire ids: the same value returned
	// twice, shifted (constant padding wires) and widened (shared zero wire)
	{
		a, b := 173, 58
		sum := (a + b) & 0xff
		out = append(out, &c16Config{name: "streaming#2/CO", stream: true, ot: 0, src: c16StreamRepeatSrc,
			gIn: []string{fmt.Sprint(a)}, eIn: []string{fmt.Sprint(b)}, seed: 7102,
			want: []*big.Int{big.NewInt(int64(sum << 3)), big.NewInt(int64(sum)), big.NewInt(int64(sum >> 2))}})
	}
	for i, in := range [][2]int{{41, 22}, {3, 60}} {
		cfg := &c16Config{name: fmt.Sprintf("streaming#%d/CO%s", i, []string{"", "/verbose"}[i%2]), stream: true, ot: 0, src: c16StreamSrc,
			gIn: []string{fmt.Sprint(in[0])}, eIn: []string{fmt.Sprint(in[1])}, seed: uint64(7100 + i), verbose: i%2 == 1}
		a, b := in[0], in[1]
		if a > b {
			cfg.want = []*big.Int{big.NewInt(int64(a - b)), big.NewInt(1)}
		} else {
			cfg.want = []*big.Int{big.NewInt(int64(a & b)), big.NewInt(0)}
		}
		out = append(out, cfg)
	}
	return out
}

type c16Outcome struct {
	class  string // error | stalled | success | garbler-panic
	res    []*big.Int
	err    error
	hits   int
	lens   [2]int64
	starts [2][]int64 // offsets of the transport writes (flush units) per direction
	pan    *vrt.PanicInfo
	evalOK bool
}

// c16Session runs one session of cfg with an optional fault.
func c16Session(cfg *c16Config, dir int, f *tap.Fault, win time.Duration) c16Outcome {
	r := vrt.NewRng(cfg.seed) // identical randomness in every session of a config
	var o c16Outcome
	prep := func(d *duplex) {
		d.link.SetFrag(tap.FragAll, 0, false)
		if f != nil {
			d.link.AddFault(dir, *f)
		}
	}
	opts := yaoOpts{ot: cfg.ot, kind: 2, stallWin: win, prepare: prep, verbose: cfg.verbose}
	var link *tap.Link
	var gp, ep partyResult
	var stalled bool
	if cfg.stream {
		s := runStream(r, cfg.src, nil, cfg.gIn, cfg.eIn, opts)
		o.res, gp, ep, link, stalled = s.gRes, s.g, s.e, s.d.link, s.stalled
	} else {
		s := runYao(r, cfg.circ, cfg.x, cfg.y, opts)
		o.res, gp, ep, link, stalled = s.gRes, s.g, s.e, s.d.link, s.stalled
	}
	o.err, o.pan = gp.err, gp.pan
	o.evalOK = ep.err == nil && ep.pan == nil
	o.lens = [2]int64{link.Written(0), link.Written(1)}
	o.starts = [2][]int64{link.WriteStarts(0), link.WriteStarts(1)}
	// a corrupted length prefix makes Conn.ReceiveData allocate up to 4 GiB:
	// give it back before the next session
	var ms runtime.MemStats
	runtime.ReadMemStats(&ms)
	if ms.HeapSys > 1<<30 {
		debug.FreeOSMemory()
	}
	if f != nil {
		o.hits = link.FaultHits(dir)
	}
	switch {
	case gp.pan != nil:
		o.class = "garbler-panic"
	case gp.err != nil && stalled:
		o.class = "stalled"
	case gp.err != nil:
		o.class = "error"
	default:
		o.class = "success"
	}
	return o
}

// c16Aux runs one faulty session in this (child) process.
func c16Aux(args []string) int {
	if len(args) != 4 {
		return 64
	}
	lim := uint64(6 << 30)
	syscall.Setrlimit(syscall.RLIMIT_AS, &syscall.Rlimit{Cur: lim, Max: lim})
	var ci, dir int
	var off int64
	fmt.Sscan(args[0], &ci)
	fmt.Sscan(args[1], &dir)
	fmt.Sscan(args[2], &off)
	var xor []byte
	fmt.Sscanf(args[3], "%x", &xor)
	cfg := c16Configs()[ci]
	o := c16Session(cfg, dir, &tap.Fault{Off: off, Xor: xor}, 300*time.Millisecond)
	jo := map[string]any{"Class": o.class, "Hits": o.hits, "EvalOK": o.evalOK}
	var res []string
	for _, v := range o.res {
		res = append(res, v.Text(16))
	}
	jo["Res"] = res
	if o.pan != nil {
		jo["Panic"] = o.pan.Frame + ": " + trimNum(firstWords(o.pan.Value, 8))
	}
	b, _ := json.Marshal(jo)
	fmt.Println("OUTCOME " + string(b))
	return 0
}

func init() {
	vrt.AuxCmds["c16"] = c16Aux
	vrt.Register(&vrt.Prop{
		ID: "C16", Level: "fault_enumeration",
		Rule: "eight configurations (whole-circuit with CO, COT, COT-malicious on generated 2-3-output circuits, one with 90 result bits; streaming with CO, one program returning repeated wire ids) each have a clean run that fixes the two direction lengths (identical randomness in every session of a configuration); then one session per fault: thorough = EVERY byte offset of both directions with a byte replacement, plus a 2-64 byte random burst at sampled offsets and single-bit flips (all 8 bits of every byte for the CO configurations, one sampled bit at every 5th offset for the OT-extension ones); both tiers add the select bit (top bit of the first byte) of each of the last 64 16-byte units of the evaluator's stream, every bit of the first eight bytes of the first two and last four transport writes (flush units) of each direction (message framing: lengths, counts, opcodes) and, over the tail of the evaluator's stream, the same mask on two bytes 16 apart and constant-mask bursts of 32/64 bytes; quick = a PRNG subset plus a low-bit flip at every offset of the last 160 bytes of the garbler's stream. " +
			"Oracle: garbler err == nil implies its result equals the reference evaluation; outcome classes {error, stalled-and-aborted (0.3 s quiescence window), success, garbler-panic} are counted. Non-trivial = the fault landed inside the transcript; distinct = (configuration, direction, offset, kind).",
		Assumptions: []string{"faults are random replacements in transit, not structured rewrites by an active attacker", "a stall is recognised after 0.3 s of quiescence of both endpoints; it is an allowed outcome"},
		NumCases: func(t string) int {
			if t == "thorough" {
				return 8 * 80
			}
			return 64
		},
		MaxWorkers:  16,
		CaseTimeout: 8 * time.Minute,
		Run:         runC16,
		Finalize: func(a *vrt.Agg) error {
			if a.Counters["outcome:error"] == 0 || a.Counters["outcome:success"] == 0 {
				return fmt.Errorf("outcome classes not both observed: error=%d success=%d", a.Counters["outcome:error"], a.Counters["outcome:success"])
			}
			if a.Counters["clean_runs_correct"] == 0 {
				return fmt.Errorf("no clean run")
			}
			return nil
		},
	})
}

func runC16(cs *vrt.Case) {
	r := cs.Rng
	cfgs := c16Configs()
	per := 8
	if cs.Thorough() {
		per = 80
	}
	cfg := cfgs[cs.Idx/per]
	part := cs.Idx % per
	// clean run
	clean := c16Session(cfg, 0, nil, 30*time.Second)
	if clean.class != "success" || !sameBigs(clean.res, cfg.want) {
		cs.Inconc(fmt.Sprintf("clean run of %s did not succeed (C02/C05's business): %s %v", cfg.name, clean.class, clean.err))
		return
	}
	cs.Count("clean_runs_correct", 1)
	cfg.len = clean.lens
	cs.SetSample(map[string]any{"config": cfg.name, "bytes_garbler_to_evaluator": cfg.len[0], "bytes_evaluator_to_garbler": cfg.len[1], "part": part})
	type fault struct {
		dir  int
		off  int64
		kind string
		xor  []byte
	}
	var faults []fault
	nz := func() byte { return byte(1 + r.Intn(255)) }
	burst := func() []byte {
		b := make([]byte, r.Range(2, 64))
		for i := range b {
			b[i] = byte(r.U64())
		}
		b[0] |= 1
		return b
	}
	total := cfg.len[0] + cfg.len[1]
	if cs.Thorough() {
		// every byte offset of both directions, split over the parts
		for p := int64(part); p < total; p += int64(per) {
			d, off := 0, p
			if p >= cfg.len[0] {
				d, off = 1, p-cfg.len[0]
			}
			faults = append(faults, fault{d, off, "byte", []byte{nz()}})
			if cfg.ot == 0 {
				// the short transcripts (no OT extension): every single-bit
				// fault of every byte
				for b := uint(0); b < 8; b++ {
					faults = append(faults, fault{d, off, "bitflip", []byte{1 << b}})
				}
			} else if p%5 == 0 {
				faults = append(faults, fault{d, off, "bitflip", []byte{1 << uint(r.Intn(8))}})
			}
			if p%11 == 0 {
				faults = append(faults, fault{d, off, "burst", burst()})
			}
		}
		cs.Count("exhaustive_offsets", int64(len(faults)))
	} else {
		for i := 0; i < 14; i++ {
			p := int64(r.Intn(int(total)))
			d, off := 0, p
			if p >= cfg.len[0] {
				d, off = 1, p-cfg.len[0]
			}
			switch i % 3 {
			case 0:
				faults = append(faults, fault{d, off, "byte", []byte{nz()}})
			case 1:
				faults = append(faults, fault{d, off, "bitflip", []byte{1 << uint(r.Intn(8))}})
			default:
				faults = append(faults, fault{d, off, "burst", burst()})
			}
		}
	}
	if !cs.Thorough() {
		// the tail of the garbler's stream carries the output decoding
		// data (result wire ids, result values): low-bit flips there turn a
		// valid field into a neighbouring valid one. Offsets are split over
		// the parts so that a quick run covers every offset of the tail.
		tail := cfg.len[0] - 160
		if tail < 0 {
			tail = 0
		}
		for off := tail + int64(part); off < cfg.len[0]; off += int64(per) {
			faults = append(faults, fault{0, off, "bitflip", []byte{1 << uint(r.Intn(3))}})
		}
	}
	// the same corruption applied to two consecutive 16-byte units (labels
	// travel as 16-byte units) and constant-mask bursts over two or four
	// units, in the tail of the evaluator's stream (the returned result
	// labels): corruptions that cancel in any linear/aggregate check
	{
		span, step := int64(96), int64(per)
		if cs.Thorough() {
			span, step = 320, int64(per)
		}
		tail := cfg.len[1] - span
		if tail < 0 {
			tail = 0
		}
		for off := tail + int64(part); off+17 <= cfg.len[1]; off += step {
			m := byte(0x80 | r.Intn(128))
			if r.Intn(3) == 0 {
				m = nz()
			}
			pair := make([]byte, 17)
			pair[0], pair[16] = m, m
			faults = append(faults, fault{1, off, "pair16", pair})
			if off+32 <= cfg.len[1] && r.Intn(2) == 0 {
				n := 32
				if r.Intn(3) == 0 && off+64 <= cfg.len[1] {
					n = 64
				}
				faults = append(faults, fault{1, off, "constburst", bytes.Repeat([]byte{m}, n)})
			}
		}
	}
	// labels travel as 16-byte units whose first byte carries the select bit in
	// its top bit: that single bit flipped in each of the last 64 units of the
	// evaluator's stream (the returned result labels) turns a label into a value
	// with the other select bit and nothing else changed
	for k := int64(1); k <= 64 && 16*k <= cfg.len[1]; k++ {
		if int(k)%per == part {
			faults = append(faults, fault{1, cfg.len[1] - 16*k, "select-bit", []byte{0x80}})
		}
	}
	// message framing: every bit of the first four bytes (and the low bits of
	// the next four) of the first two and the last four transport writes of each
	// direction - where length prefixes, counts and opcodes of the flushed
	// messages sit. A length that still looks plausible after the flip (shorter
	// by a whole number of units) is the fault a value check cannot see.
	{
		var pos [][2]int64
		for d := 0; d < 2; d++ {
			st := clean.starts[d]
			pick := map[int]bool{0: true, 1: true}
			for k := max(0, len(st)-4); k < len(st); k++ {
				pick[k] = true
			}
			for k := range st {
				if !pick[k] {
					continue
				}
				for b := int64(0); b < 8 && st[k]+b < cfg.len[d]; b++ {
					pos = append(pos, [2]int64{int64(d), st[k] + b})
				}
			}
		}
		n := 0
		for _, p := range pos {
			for b := uint(0); b < 8; b++ {
				if n++; n%per == part {
					faults = append(faults, fault{int(p[0]), p[1], "framing-bit", []byte{1 << b}})
				}
			}
		}
		cs.Count("framing_bit_faults", int64(len(pos)*8/per))
	}
	self, _ := os.Executable()
	for _, f := range faults {
		// one OS process per faulty session, under an address-space limit: a
		// corrupted length or wire count can make the code under test ask for
		// 4-64 GiB (process-fatal, an allowed outcome that must not take the
		// monitor down with it)
		var o c16Outcome
		out, err := exec.Command(self, "aux", "c16", fmt.Sprint(cs.Idx/per), fmt.Sprint(f.dir), fmt.Sprint(f.off), fmt.Sprintf("%x", f.xor)).Output()
		var jo struct {
			Class  string
			Res    []string
			Hits   int
			EvalOK bool
			Panic  string
		}
		if i := bytes.LastIndex(out, []byte("OUTCOME ")); i >= 0 && json.Unmarshal(bytes.TrimSpace(out[i+8:]), &jo) == nil {
			o.class, o.hits, o.evalOK = jo.Class, jo.Hits, jo.EvalOK
			for _, s := range jo.Res {
				v, _ := new(big.Int).SetString(s, 16)
				o.res = append(o.res, v)
			}
			if jo.Panic != "" {
				o.pan = &vrt.PanicInfo{Frame: jo.Panic, Value: jo.Panic}
			}
		} else {
			_ = err
			o.class, o.hits = "process-fatal", 1
		}
		cs.Evals++
		if o.hits == 0 {
			cs.Count("fault_beyond_transcript", 1)
			continue
		}
		cs.Key(cfg.name, fmt.Sprint(f.dir, f.off, f.kind))
		cs.Count("outcome:"+o.class, 1)
		cs.Count("faults_dir"+fmt.Sprint(f.dir), 1)
		if !o.evalOK {
			cs.Count("evaluator_failed_or_crashed", 1)
		}
		if o.class == "process-fatal" {
			continue
		}
		if o.class == "garbler-panic" {
			cs.Seen("garbler_panics", o.pan.Frame+": "+trimNum(firstWords(o.pan.Value, 8)))
			continue
		}
		if o.class == "success" && !sameBigs(o.res, cfg.want) {
			field := ""
			if !cfg.stream && f.dir == 0 {
				field = yaoField(cfg.circ, int(f.off))
			}
			cs.Violate("C16|wrong-result-reported|"+strings.Split(cfg.name, "#")[0]+"|dir"+fmt.Sprint(f.dir), fmt.Sprintf("%s: %s corruption at byte %d of direction %d (%s): the garbler returned %v without error, the correct result is %v", cfg.name, f.kind, f.off, f.dir, field, o.res, cfg.want),
				map[string]any{"config": cfg.name, "dir": f.dir, "offset": f.off, "kind": f.kind, "xor": fmt.Sprintf("%x", f.xor), "field": field})
		}
	}
}

func sameBigs(a, b []*big.Int) bool {
	if len(a) != len(b) {
		return false
	}
	for i := range a {
		if a[i].Cmp(b[i]) != 0 {
			return false
		}
	}
	return true
}
