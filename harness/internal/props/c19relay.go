package props

import (
	"encoding/binary"
	"fmt"
	"io"
	"net"
	"sync"
	"time"

	"verifharness/internal/vrt"
)

// c19Relay is a transport between the parties of one mesh: every party is
// reached through a relay listener of its own (as through a NAT box or a
// tunnel). The relay forwards each connection to the party's real listener
// and rewrites the address a dialer announces in its hello to the dialer's
// relay address, so that every party knows every other party by one address.
// What it varies is the timing of connection ESTABLISHMENT: the onward leg
// of a connection may be opened later than the onward leg of the next
// connection the same dialer opened to the same party (a lost handshake ACK
// or a slow onward leg does this on real networks), so connections of one
// dialer arrive in another order than they were dialed in. Each held
// connection is forwarded after 250 ms at the latest: the relay only delays.
type c19Relay struct {
	mu        sync.Mutex
	listeners []net.Listener
	conns     []net.Conn
	relayAddr []string // party -> address of its relay listener
	realAddr  []string // party -> address the party listens on
	swap      map[[2]int]bool
	held      map[[2]int]*c19Held
	swapped   int
	forwarded int
	closed    bool
}

type c19Held struct {
	connID  int
	release chan struct{}
}

func newC19Relay(r *vrt.Rng, relayAddr, realAddr []string) (*c19Relay, error) {
	rl := &c19Relay{relayAddr: relayAddr, realAddr: realAddr, swap: map[[2]int]bool{}, held: map[[2]int]*c19Held{}}
	P := len(relayAddr)
	for d := 0; d < P; d++ {
		for t := 0; t < P; t++ {
			rl.swap[[2]int{d, t}] = r.Intn(3) != 0
		}
	}
	for t := 0; t < P; t++ {
		l, err := net.Listen("tcp", relayAddr[t])
		if err != nil {
			rl.Close()
			return nil, err
		}
		rl.listeners = append(rl.listeners, l)
		go rl.serve(l, t)
	}
	return rl, nil
}

func (rl *c19Relay) Close() {
	rl.mu.Lock()
	rl.closed = true
	ls, cs := rl.listeners, rl.conns
	rl.mu.Unlock()
	for _, l := range ls {
		l.Close()
	}
	for _, c := range cs {
		c.Close()
	}
}

func (rl *c19Relay) track(c net.Conn) {
	rl.mu.Lock()
	rl.conns = append(rl.conns, c)
	closed := rl.closed
	rl.mu.Unlock()
	if closed {
		c.Close()
	}
}

func (rl *c19Relay) serve(l net.Listener, target int) {
	for {
		c, err := l.Accept()
		if err != nil {
			return
		}
		rl.track(c)
		go rl.handle(c, target)
	}
}

func (rl *c19Relay) handle(c net.Conn, target int) {
	// the hello: magic|connID, dialer id, dialer address
	var hdr [12]byte
	if _, err := io.ReadFull(c, hdr[:]); err != nil {
		c.Close()
		return
	}
	magic := binary.BigEndian.Uint32(hdr[0:])
	id := int(binary.BigEndian.Uint32(hdr[4:]))
	alen := int(binary.BigEndian.Uint32(hdr[8:]))
	if alen > 256 || id < 0 || id >= len(rl.relayAddr) {
		c.Close()
		return
	}
	addr := make([]byte, alen)
	if _, err := io.ReadFull(c, addr); err != nil {
		c.Close()
		return
	}
	if string(addr) == rl.realAddr[id] {
		addr = []byte(rl.relayAddr[id])
	}
	connID := int(magic & 0xff)
	key := [2]int{id, target}

	// establishment order: an even connection id of a swapping pair waits
	// for the dialer's next connection to this party (or 250 ms)
	rl.mu.Lock()
	var wait chan struct{}
	if h := rl.held[key]; h != nil && h.connID+1 == connID {
		// the held predecessor goes after this one
		delete(rl.held, key)
		defer close(h.release)
		rl.swapped++
	} else if rl.swap[key] && connID%2 == 0 && !(target == 0 && connID == 0) {
		h := &c19Held{connID: connID, release: make(chan struct{})}
		rl.held[key] = h
		wait = h.release
	}
	rl.mu.Unlock()
	if wait != nil {
		select {
		case <-wait:
			// the successor's onward leg is open and its hello is written
		case <-time.After(250 * time.Millisecond):
			rl.mu.Lock()
			if h := rl.held[key]; h != nil && h.connID == connID {
				delete(rl.held, key)
			}
			rl.mu.Unlock()
		}
	}
	o, err := net.Dial("tcp", rl.realAddr[target])
	if err != nil {
		c.Close()
		return
	}
	rl.track(o)
	out := make([]byte, 0, 12+len(addr))
	out = binary.BigEndian.AppendUint32(out, magic)
	out = binary.BigEndian.AppendUint32(out, uint32(id))
	out = binary.BigEndian.AppendUint32(out, uint32(len(addr)))
	out = append(out, addr...)
	if _, err := o.Write(out); err != nil {
		c.Close()
		o.Close()
		return
	}
	rl.mu.Lock()
	rl.forwarded++
	rl.mu.Unlock()
	go func() {
		io.Copy(o, c)
		if t, ok := o.(*net.TCPConn); ok {
			t.CloseWrite()
		}
	}()
	go func() {
		io.Copy(c, o)
		if t, ok := c.(*net.TCPConn); ok {
			t.CloseWrite()
		}
	}()
}

func (rl *c19Relay) stats() (forwarded, swapped int) {
	rl.mu.Lock()
	defer rl.mu.Unlock()
	return rl.forwarded, rl.swapped
}

func (rl *c19Relay) String() string {
	f, s := rl.stats()
	return fmt.Sprintf("relay: %d connections forwarded, %d pairs established in swapped order", f, s)
}
