package props

import (
	"bytes"
	"errors"
	"fmt"
	"io"
	"os"
	"strings"
	"sync"
	"time"

	"github.com/markkurossi/mpc/ot"
	"github.com/markkurossi/mpc/p2p"

	"verifharness/internal/tap"
	"verifharness/internal/vrt"
)

type c11Op struct {
	kind int // 0 byte 1 uint16 2 uint32 3 data 4 string 5 label 6 sizes 7 flush
	n    int // payload length / count
	v    uint64
}

var c11Sizes = []int{0, 1, 15, 16, 17, 255, 4095, 65535 - 4, 65536 - 4, 65536 - 3, 65535, 65536, 65537, 3 * 65536, 3*65536 + 1, 1<<20 - 1, 1 << 20, 1<<20 + 1, 5 << 19}

func c11Payload(dir, idx, n int) []byte {
	b := make([]byte, n)
	x := uint32(dir*1000003+idx*7919) | 1
	for i := range b {
		x = x*1664525 + 1013904223
		b[i] = byte(x >> 24)
	}
	if n >= 8 {
		copy(b, fmt.Sprintf("%d:%06d", dir, idx%1000000))
	}
	return b
}

func c11Script(r *vrt.Rng, dir int, small bool) []c11Op {
	n := r.Range(1, 400)
	if small {
		n = r.Range(1, 40)
	}
	budget := 6 << 20
	if small {
		budget = 1 << 20
	}
	var ops []c11Op
	for i := 0; i < n; i++ {
		k := r.Intn(9)
		switch {
		case k <= 2:
			ops = append(ops, c11Op{kind: k, v: r.U64()})
		case k == 3 || k == 4:
			sz := r.Intn(40)
			if r.Intn(4) == 0 {
				sz = vrt.Pick(r, c11Sizes)
			}
			if sz > budget {
				sz = r.Intn(100)
			}
			budget -= sz
			ops = append(ops, c11Op{kind: k, n: sz})
		case k == 5:
			ops = append(ops, c11Op{kind: 5, v: r.U64()})
		case k == 6:
			ops = append(ops, c11Op{kind: 6, n: r.Intn(12), v: r.U64()})
		default:
			ops = append(ops, c11Op{kind: 7})
		}
	}
	// filler bytes so that fixed-width values straddle the 64 KiB write buffer end
	if r.Intn(3) == 0 {
		pad := 65536 - r.Range(1, 20)
		pre := []c11Op{{kind: 3, n: pad - 4}}
		ops = append(pre, ops...)
	}
	return ops
}

func c11Send(c *p2p.Conn, dir, idx int, op c11Op) error {
	var ld ot.LabelData
	switch op.kind {
	case 0:
		return c.SendByte(byte(op.v))
	case 1:
		return c.SendUint16(int(uint16(op.v)))
	case 2:
		return c.SendUint32(int(uint32(op.v)))
	case 3:
		return c.SendData(c11Payload(dir, idx, op.n))
	case 4:
		return c.SendString(string(c11Payload(dir, idx, op.n)))
	case 5:
		return c.SendLabel(ot.Label{D0: op.v, D1: op.v*31 + uint64(idx)}, &ld)
	case 6:
		s := make([]int, op.n)
		for i := range s {
			s[i] = int(uint32(op.v>>uint(i%32)) + uint32(i))
		}
		return c.SendInputSizes(s)
	default:
		return c.Flush()
	}
}

// c11Held keeps the byte slices ReceiveData returned (the slices themselves,
// not copies), as a receiver that collects several messages before using them
// does; recheck compares them with what was sent once more after all later
// receives: a value that was right when it was returned must stay right.
type c11Held struct {
	items []c11HeldItem
	bytes int
}

type c11HeldItem struct {
	dir, idx, n int
	v           []byte
}

func (h *c11Held) keep(dir, idx, n int, v []byte) {
	if h == nil || h.bytes+len(v) > 24<<20 {
		return
	}
	h.bytes += len(v)
	h.items = append(h.items, c11HeldItem{dir, idx, n, v})
}

func (h *c11Held) recheck() string {
	for _, it := range h.items {
		if !bytes.Equal(it.v, c11Payload(it.dir, it.idx, it.n)) {
			return fmt.Sprintf("op %d of direction %d: the %d-byte slice ReceiveData returned was correct then and has changed after later receives", it.idx, it.dir, it.n)
		}
	}
	return ""
}

// c11Recv receives and checks op; returns a description of the mismatch.
func c11Recv(c *p2p.Conn, dir, idx int, op c11Op, held *c11Held) (string, error) {
	var ld ot.LabelData
	switch op.kind {
	case 0:
		v, err := c.ReceiveByte()
		if err == nil && v != byte(op.v) {
			return fmt.Sprintf("byte %d != %d", v, byte(op.v)), nil
		}
		return "", err
	case 1:
		v, err := c.ReceiveUint16()
		if err == nil && v != int(uint16(op.v)) {
			return fmt.Sprintf("uint16 %d != %d", v, uint16(op.v)), nil
		}
		return "", err
	case 2:
		v, err := c.ReceiveUint32()
		if err == nil && v != int(uint32(op.v)) {
			return fmt.Sprintf("uint32 %d != %d", v, uint32(op.v)), nil
		}
		return "", err
	case 3:
		v, err := c.ReceiveData()
		if err == nil && !bytes.Equal(v, c11Payload(dir, idx, op.n)) {
			return fmt.Sprintf("data of %d bytes differs (got %d bytes)", op.n, len(v)), nil
		}
		if err == nil {
			held.keep(dir, idx, op.n, v)
		}
		return "", err
	case 4:
		v, err := c.ReceiveString()
		if err == nil && v != string(c11Payload(dir, idx, op.n)) {
			return fmt.Sprintf("string of %d bytes differs (got %d bytes)", op.n, len(v)), nil
		}
		return "", err
	case 5:
		var l ot.Label
		err := c.ReceiveLabel(&l, &ld)
		want := ot.Label{D0: op.v, D1: op.v*31 + uint64(idx)}
		if err == nil && !l.Equal(want) {
			return fmt.Sprintf("label %s != %s", l, want), nil
		}
		return "", err
	case 6:
		v, err := c.ReceiveInputSizes()
		if err != nil {
			return "", err
		}
		if len(v) != op.n {
			return fmt.Sprintf("size list of %d entries, expected %d", len(v), op.n), nil
		}
		for i := range v {
			if v[i] != int(uint32(op.v>>uint(i%32))+uint32(i)) {
				return fmt.Sprintf("size list entry %d differs", i), nil
			}
		}
		return "", nil
	}
	return "", nil
}

func init() {
	vrt.RaceFilter = raceFilter
	vrt.Register(&vrt.Prop{
		ID: "C11", Level: "exploration",
		Rule: "case = a pair of PRNG-generated operation scripts (1-400 typed sends: byte, uint16, uint32, data, string, label, size list; payload sizes around 0, 16, 64 KiB +-, 3x64 KiB, 1 MiB +-, 2.5 MiB; flushes at PRNG positions; a filler so fixed-width values straddle the write-buffer end; every payload embeds (direction, op index)) run in both directions at once over p2p.NewConn(tap) with read fragmentation from 1 byte to whole buffer, write delays and lazy copying, or one direction at a time over p2p.Pipe; every eighth case drives each end from a sender and a receiver goroutine at once; the script ends with Close (no final Flush). " +
			"Oracle: the received value sequence equals the sent one, and every byte slice ReceiveData returned is kept (not copied) and still equals the sent payload after all later receives; after Close the reader drains everything and then sees EOF; Stats.Sent / Stats.Recvd equal the bytes the tap accepted from / delivered to that side. Thorough runs under the race detector (reports with p2p frames are violations). Distinct = hash(scripts, transport mode).",
		Assumptions: []string{"one goroutine per connection end issues sends and receives (as the protocol code does)", "behaviour after a transport error is not part of the statement"},
		NumCases: func(t string) int {
			if t == "thorough" {
				return 1200
			}
			return 240
		},
		Race:        func(t string) bool { return t == "thorough" },
		CaseTimeout: 6 * time.Minute,
		Run:         runC11,
	})
}

func raceFilter(prop, report string) (string, string) {
	// keep only the two access stacks (up to "Goroutine ... created at")
	head := report
	if i := strings.Index(head, "Goroutine "); i > 0 {
		head = head[:i]
	}
	var frames []string
	for _, ln := range strings.Split(head, "\n") {
		ln = strings.TrimSpace(ln)
		if strings.HasPrefix(ln, "github.com/markkurossi/mpc/") {
			f := strings.TrimPrefix(ln, "github.com/markkurossi/mpc/")
			if i := strings.LastIndex(f, "("); i > 0 {
				f = f[:i]
			}
			frames = append(frames, f)
		}
	}
	if len(frames) == 0 {
		return "", ""
	}
	switch prop {
	case "C11":
		if strings.Contains(head, "mpc/p2p.") {
			return "C11|data-race|" + frames[0], "race detector: unsynchronised access in the connection layer: " + strings.Join(frames, " / ")
		}
	case "C17":
		if strings.Contains(head, "mpc/circuit.") {
			return "C17|data-race|" + frames[0], "race detector: data race on a shared circuit value: " + strings.Join(frames, " / ")
		}
	}
	return "", ""
}

// c11Split drives each end of a tap connection from two goroutines: one issues
// that end's sends and flushes, the other the matching receives of the peer's
// script - both directions of one Conn at the same time, as a full-duplex user
// of the stream (a message pump next to a producer) works. The send and the
// receive half of a Conn share no state they need to share; whatever one half
// does must not disturb the bytes or the counters of the other.
func c11Split(cs *vrt.Case, r *vrt.Rng) {
	scripts := [2][]c11Op{c11Script(r, 0, true), c11Script(r, 1, true)}
	link := tap.NewLink(r, false)
	frag := r.Intn(5)
	link.SetFrag(frag, []int{0, 10, 60}[r.Intn(3)], r.Bool())
	conns := [2]*p2p.Conn{p2p.NewConn(link.A), p2p.NewConn(link.B)}
	link.Watch(20*time.Second, 0)
	desc := map[string]any{"transport": fmt.Sprintf("tap frag=%d, sender and receiver goroutine per end", frag), "ops": []int{len(scripts[0]), len(scripts[1])}}
	cs.SetSample(desc)
	type result struct {
		mismatch string
		err      error
		pan      *vrt.PanicInfo
	}
	var res [4]result // 2*e: sender of end e, 2*e+1: receiver of end e
	var wg sync.WaitGroup
	flushAt := [2]map[int]bool{{}, {}}
	for e := 0; e < 2; e++ {
		for i := range scripts[e] {
			if r.Intn(6) == 0 {
				flushAt[e][i] = true
			}
		}
	}
	for e := 0; e < 2; e++ {
		wg.Add(2)
		go func(e int) { // sender
			defer wg.Done()
			res[2*e].pan = vrt.Guard(func() {
				for i, op := range scripts[e] {
					if err := c11Send(conns[e], e, i, op); err != nil {
						res[2*e].err = fmt.Errorf("send op %d: %w", i, err)
						return
					}
					if flushAt[e][i] {
						if err := conns[e].Flush(); err != nil {
							res[2*e].err = err
							return
						}
					}
				}
				res[2*e].err = conns[e].Flush()
			})
		}(e)
		go func(e int) { // receiver
			defer wg.Done()
			held := &c11Held{}
			res[2*e+1].pan = vrt.Guard(func() {
				for i, op := range scripts[1-e] {
					m, err := c11Recv(conns[e], 1-e, i, op, held)
					if err != nil {
						res[2*e+1].err = fmt.Errorf("receive op %d: %w", i, err)
						return
					}
					if m != "" {
						res[2*e+1].mismatch = fmt.Sprintf("op %d of direction %d: %s", i, 1-e, m)
						return
					}
				}
				res[2*e+1].mismatch = held.recheck()
			})
			if res[2*e+1].err != nil || res[2*e+1].mismatch != "" || res[2*e+1].pan != nil {
				link.Abort(fmt.Errorf("receiver gave up")) // do not leave the peer's sender blocked
			}
		}(e)
	}
	wg.Wait()
	link.Stop()
	cs.Count("split_sessions", 1)
	for i, x := range res {
		cs.Evals += int64(len(scripts[(i/2+i%2)%2]))
		role := fmt.Sprintf("%s goroutine of endpoint %d", []string{"sender", "receiver"}[i%2], i/2)
		switch {
		case x.pan != nil && x.pan.InMPC:
			cs.Violate("C11|panic|"+x.pan.Frame, "connection layer panicked ("+role+"): "+x.pan.Value, map[string]any{"case": desc, "stack": x.pan.Stack})
			return
		case x.pan != nil:
			cs.Inconc("harness panic: " + x.pan.Value + "\n" + x.pan.Stack)
			return
		case x.mismatch != "":
			cs.Violate("C11|value-mismatch", "received value differs from the sent one ("+role+"): "+x.mismatch, map[string]any{"case": desc})
			return
		}
	}
	for i, x := range res {
		if x.err != nil {
			key := "C11|error"
			if link.Stalled() {
				key = "C11|stalled"
			}
			cs.Violate(key, fmt.Sprintf("error-free transport, %s goroutine of endpoint %d failed: %v", []string{"sender", "receiver"}[i%2], i/2, x.err), map[string]any{"case": desc})
			return
		}
	}
	checks := []struct {
		name string
		got  uint64
		want int64
	}{
		{"A.Stats.Sent", conns[0].Stats.Sent.Load(), link.Written(0)},
		{"B.Stats.Sent", conns[1].Stats.Sent.Load(), link.Written(1)},
		{"B.Stats.Recvd", conns[1].Stats.Recvd.Load(), link.Delivered(0)},
		{"A.Stats.Recvd", conns[0].Stats.Recvd.Load(), link.Delivered(1)},
	}
	for _, c := range checks {
		if int64(c.got) != c.want {
			cs.Violate("C11|stats|"+strings.Split(c.name, ".")[2], fmt.Sprintf("%s = %d but the transport moved %d bytes", c.name, c.got, c.want), map[string]any{"case": desc})
			return
		}
	}
	go conns[0].Close()
	go conns[1].Close()
	cs.Key(fmt.Sprint(scripts[0]), fmt.Sprint(scripts[1]), "split")
	cs.Seen("transports", "tap-split")
}

func runC11(cs *vrt.Case) {
	r := cs.Rng
	if cs.Idx%8 == 3 {
		c11Split(cs, r)
		return
	}
	usePipe := cs.Idx%6 == 5
	small := usePipe || cs.Idx%3 == 0
	scripts := [2][]c11Op{c11Script(r, 0, small), c11Script(r, 1, small)}
	var link *tap.Link
	var ca, cb *p2p.Conn
	mode := "p2p.Pipe"
	if usePipe {
		ca, cb = p2p.Pipe()
	} else {
		link = tap.NewLink(r, false)
		frag := r.Intn(5)
		link.SetFrag(frag, []int{0, 10, 60}[r.Intn(3)], r.Bool())
		ca, cb = p2p.NewConn(link.A), p2p.NewConn(link.B)
		mode = fmt.Sprintf("tap frag=%d", frag)
		// the scripts do no computation: a reader parked for 20 s with nothing
		// moving means the connection layer lost or is withholding data
		link.Watch(20*time.Second, 0)
	}
	desc := map[string]any{"transport": mode, "ops": []int{len(scripts[0]), len(scripts[1])}}
	cs.SetSample(desc)
	conns := [2]*p2p.Conn{ca, cb}
	type result struct {
		mismatch string
		err      error
		pan      *vrt.PanicInfo
		eof      error
		held     int
	}
	var res [2]result
	var chunks [2][]int
	for d := 0; d < 2; d++ {
		for left := len(scripts[d]); left > 0; {
			k := min(left, r.Range(1, 30))
			chunks[d] = append(chunks[d], k)
			left -= k
		}
	}
	var wg sync.WaitGroup
	// endpoint e sends scripts[e] and receives scripts[1-e]
	run := func(e int) {
		defer wg.Done()
		c := conns[e]
		mine, theirs := scripts[e], scripts[1-e]
		held := &c11Held{}
		defer func() {
			if res[e].mismatch == "" && res[e].pan == nil {
				res[e].mismatch = held.recheck()
			}
			res[e].held = len(held.items)
		}()
		res[e].pan = vrt.Guard(func() {
			if usePipe {
				// one direction at a time: endpoint 0 sends first
				order := []bool{e == 0, e != 0}
				for _, sending := range order {
					if sending {
						for i, op := range mine {
							if err := c11Send(c, e, i, op); err != nil {
								res[e].err = fmt.Errorf("send op %d: %w", i, err)
								return
							}
						}
						if err := c.Flush(); err != nil {
							res[e].err = err
							return
						}
					} else {
						for i, op := range theirs {
							m, err := c11Recv(c, 1-e, i, op, held)
							if err != nil {
								res[e].err = fmt.Errorf("receive op %d: %w", i, err)
								return
							}
							if m != "" {
								res[e].mismatch = fmt.Sprintf("op %d of direction %d: %s", i, 1-e, m)
								return
							}
						}
					}
				}
				return
			}
			// full duplex: in round j both ends send their j-th chunk (the tap
			// never blocks a writer) and then receive the peer's j-th chunk
			si, ri := 0, 0
			closer := len(chunks[e]) > len(chunks[1-e]) || len(chunks[e]) == len(chunks[1-e]) && e == 1
			for j := 0; si < len(mine) || ri < len(theirs); j++ {
				if j < len(chunks[e]) {
					for k := chunks[e][j]; k > 0; k-- {
						if err := c11Send(c, e, si, mine[si]); err != nil {
							res[e].err = fmt.Errorf("send op %d: %w", si, err)
							return
						}
						si++
					}
					// the end that finishes last leaves its final chunk
					// buffered: its Close (below) must deliver it
					if si == len(mine) && closer {
						// nothing
					} else if err := c.Flush(); err != nil {
						res[e].err = err
						return
					}
				}
				if j < len(chunks[1-e]) {
					for k := chunks[1-e][j]; k > 0; k-- {
						m, err := c11Recv(c, 1-e, ri, theirs[ri], held)
						if err != nil {
							res[e].err = fmt.Errorf("receive op %d: %w", ri, err)
							return
						}
						if m != "" {
							res[e].mismatch = fmt.Sprintf("op %d of direction %d: %s", ri, 1-e, m)
							return
						}
						ri++
					}
				}
			}
			if closer {
				// Close must deliver what is still buffered
				if err := c.Close(); err != nil {
					res[e].err = fmt.Errorf("close: %w", err)
				}
				res[e].eof = io.EOF
				return
			}
			// after the peer's Close the stream must end
			_, res[e].eof = c.ReceiveByte()
			if err := c.Close(); err != nil {
				res[e].err = fmt.Errorf("close: %w", err)
			}
		})
		// whatever happened, do not leave the peer blocked on this end
		if link != nil {
			if e == 0 {
				link.A.Close()
			} else {
				link.B.Close()
			}
		} else if res[e].err != nil || res[e].mismatch != "" || res[e].pan != nil {
			go c.Close()
		}
	}
	wg.Add(2)
	go run(0)
	go run(1)
	done := make(chan struct{})
	go func() { wg.Wait(); close(done) }()
	started := time.Now()
	for waiting := true; waiting; {
		select {
		case <-done:
			waiting = false
		case <-time.After(time.Second):
			if link == nil && time.Since(started) > 2*time.Minute {
				// p2p.Pipe gives the harness no view of progress: a session that
				// does not end is left alone and counted, not judged
				cs.Inconc("p2p.Pipe session still running after 2 minutes")
				return
			}
			if link != nil && link.Stalled() {
				// an end blocked inside the connection layer (not in a
				// transport read) cannot be unblocked: give it 5 s, then
				// report the stall and abandon the goroutines
				select {
				case <-done:
				case <-time.After(5 * time.Second):
					cs.Violate("C11|stalled", "session stalled: nothing moved for 20 s while an endpoint was waiting for data, and an endpoint stays blocked inside the connection layer", map[string]any{"case": desc})
					return
				}
				waiting = false
			}
		}
	}
	if usePipe {
		ca.Close()
		cb.Close()
	}
	if os.Getenv("C11_DEBUG") != "" {
		fmt.Fprintf(os.Stderr, "res0=%+v\nres1=%+v\nchunks=%v\n", res[0], res[1], chunks)
	}
	for e := 0; e < 2; e++ {
		cs.Evals += int64(len(scripts[e]))
		cs.Count("received_slices_held_and_rechecked_at_the_end", int64(res[e].held))
		if res[e].pan != nil {
			if res[e].pan.InMPC {
				cs.Violate("C11|panic|"+res[e].pan.Frame, "connection layer panicked: "+res[e].pan.Value, map[string]any{"case": desc, "stack": res[e].pan.Stack})
			} else {
				cs.Inconc("harness panic: " + res[e].pan.Value + "\n" + res[e].pan.Stack)
			}
			return
		}
		if res[e].mismatch != "" {
			cs.Violate("C11|value-mismatch", "received value differs from the sent one: "+res[e].mismatch, map[string]any{"case": desc})
			return
		}
		if res[e].err != nil {
			key := "C11|error"
			if link != nil && link.Stalled() {
				key = "C11|stalled"
			}
			cs.Violate(key, fmt.Sprintf("error-free transport, endpoint %d failed: %v", e, res[e].err), map[string]any{"case": desc})
			return
		}
		if !usePipe && !errors.Is(res[e].eof, io.EOF) {
			cs.Violate("C11|no-eof-after-close", fmt.Sprintf("after the peer closed, a further receive returned %v instead of EOF", res[e].eof), map[string]any{"case": desc})
			return
		}
	}
	if link != nil {
		// byte counters: Sent of A == accepted on direction 0, Recvd of B == delivered on direction 0, ...
		checks := []struct {
			name string
			got  uint64
			want int64
		}{
			{"A.Stats.Sent", ca.Stats.Sent.Load(), link.Written(0)},
			{"B.Stats.Sent", cb.Stats.Sent.Load(), link.Written(1)},
			{"B.Stats.Recvd", cb.Stats.Recvd.Load(), link.Delivered(0)},
			{"A.Stats.Recvd", ca.Stats.Recvd.Load(), link.Delivered(1)},
		}
		for _, c := range checks {
			if int64(c.got) != c.want {
				cs.Violate("C11|stats|"+strings.Split(c.name, ".")[2], fmt.Sprintf("%s = %d but the transport moved %d bytes", c.name, c.got, c.want), map[string]any{"case": desc})
				return
			}
		}
		if link.Written(0) != link.Delivered(0) || link.Written(1) != link.Delivered(1) {
			cs.Violate("C11|undelivered", fmt.Sprintf("bytes written %d/%d but delivered %d/%d", link.Written(0), link.Written(1), link.Delivered(0), link.Delivered(1)), map[string]any{"case": desc})
			return
		}
		cs.Count("bytes_moved", link.Written(0)+link.Written(1))
		link.Stop()
	}
	cs.Key(fmt.Sprint(scripts[0]), fmt.Sprint(scripts[1]), mode)
	cs.Seen("transports", strings.Fields(mode)[0])
}
