package props

import (
	"bytes"
	"fmt"
	"math/big"
	"runtime/pprof"
	"strings"
	"sync"
	"time"

	"github.com/markkurossi/mpc/circuit"
	"github.com/markkurossi/mpc/compiler/utils"
	"github.com/markkurossi/mpc/gmw"
	"github.com/markkurossi/mpc/types"

	"verifharness/internal/mpclgen"
	"verifharness/internal/refc"
	"verifharness/internal/vrt"
)

// partiesQuiescent: every goroutine whose stack mentions marker is parked.
func partiesQuiescent(dump, marker string) (int, bool) {
	n := 0
	for _, g := range strings.Split(dump, "\n\n") {
		if !strings.Contains(g, marker) {
			continue
		}
		n++
		head := g
		if i := strings.IndexByte(g, '\n'); i > 0 {
			head = g[:i]
		}
		if !(strings.Contains(head, "sync.Cond.Wait") || strings.Contains(head, "IO wait") || strings.Contains(head, "chan receive") || strings.Contains(head, "chan send") || strings.Contains(head, "select") || strings.Contains(head, "semacquire") || strings.Contains(head, "sync.WaitGroup.Wait") || strings.Contains(head, "sync.Mutex.Lock")) {
			return n, false
		}
	}
	return n, n > 0
}

var c10Fixtures = []string{
	// the repository's 3-party style example: many AND levels
	`package main
func main(a, b, c uint16) (uint16, bool) {
	m := a
	if b > m {
		m = b
	}
	if c > m {
		m = c
	}
	return m * (a ^ b ^ c), a+b < c
}
`,
	`package main
func main(a uint7, b uint9) (uint9, uint7) {
	return uint9(a) * b + 3, a / (uint7(b) | 1)
}
`,
}

var c10Counts = []int{1, 63, 64, 65, 100, 128, 4095, 4096, 4097, 9000, 1, 8191, 200}

func init() {
	vrt.Register(&vrt.Prop{
		ID: "C10", Level: "exploration",
		Rule: "case = a real loopback GMW mesh of 2-5 parties (CreateNetwork/JoinNetwork/Connect with PRNG join order and PRNG delays before Join, Connect and Run). Kind A: an n-argument program (generated: multipliers, comparators, dividers, AND batches of odd sizes; or a fixture) compiled for TargetGMW with AssignLevels by every party; oracle: every party's Run returns nil error and outputs equal to the reference evaluation of that circuit on all parties' inputs. " +
			"Kind B: every party draws the same PRNG sequence of counts from Pool.Get (1, 63, 64, 65, 100, 4095..4097, 9000 ...) at party-specific times (one party lags 10-200 ms, the others jitter 0-8 ms between calls, so the same Get is served from one batch at one party and across a refill at another); oracle per 64-bit word: (xor of all A shares) AND (xor of all B shares) == xor of all C shares, including the round-up bits. A quiescent deadlock (all gmw goroutines parked, byte counters unchanged, two dumps) is a violation; another timeout inconclusive. Distinct = hash(program, inputs, parties) / (parties, count sequence).",
		Assumptions: []string{"loopback TCP", "the race detector is not an oracle here (known benign unsynchronised flags such as Pool.closed)"},
		NumCases: func(t string) int {
			if t == "thorough" {
				return 600
			}
			return 64
		},
		MaxWorkers:  8,
		CaseTimeout: 5 * time.Minute,
		Run:         runC10,
	})
}

// c10Deep builds a non-linear feedback register over two parties' 8-bit
// inputs: w[i+1] = (w[i] & w[i-1]) ^ w[i-2] ^ in[i%16], started from x0&y0, x1,
// y1. The state update is a bijection, so the register never forgets: a gate
// evaluated before its inputs exist (read as 0) leaves a difference that lasts
// to the outputs (the last eight values, each ^ x[k]). AND depth = depth+1.
func c10Deep(depth int) *circuit.Circuit {
	u8 := types.Info{Type: types.TUint, IsConcrete: true, Bits: 8, MinBits: 8}
	c := &circuit.Circuit{Inputs: circuit.IO{{Name: "x", Type: u8}, {Name: "y", Type: u8}}, Outputs: circuit.IO{{Name: "r", Type: u8}}}
	next := circuit.Wire(16)
	add := func(op circuit.Operation, a, b circuit.Wire) circuit.Wire {
		c.Gates = append(c.Gates, circuit.Gate{Op: op, Input0: a, Input1: b, Output: next})
		c.Stats[op]++
		next++
		return next - 1
	}
	w0, w1, w2 := add(circuit.AND, 0, 8), circuit.Wire(1), circuit.Wire(9)
	var tail []circuit.Wire
	for i := 0; i < depth; i++ {
		t := add(circuit.AND, w0, w1)
		t = add(circuit.XOR, t, w2)
		t = add(circuit.XOR, t, circuit.Wire(i%16))
		w0, w1, w2 = t, w0, w1
		if i >= depth-8 {
			tail = append(tail, t)
		}
	}
	for k := 0; k < 8; k++ {
		add(circuit.XOR, tail[k], circuit.Wire(k))
	}
	c.NumGates = len(c.Gates)
	c.NumWires = int(next)
	c.AssignLevels(utils.TargetGMW)
	return c
}

// c10Wide builds levels of w AND gates each (w above the offline batch size
// and not a multiple of 64), every level fed by the previous one and kept
// lively by XORs with input bits; the last level is the output. Enough ANDs
// to use up everything the offline phase dealt before the first wide level.
func c10Wide(w, levels int) *circuit.Circuit {
	u64 := types.Info{Type: types.TUint, IsConcrete: true, Bits: 64, MinBits: 64}
	out := types.Info{Type: types.TUint, IsConcrete: true, Bits: types.Size(w), MinBits: types.Size(w)}
	c := &circuit.Circuit{Inputs: circuit.IO{{Name: "x", Type: u64}, {Name: "y", Type: u64}}, Outputs: circuit.IO{{Name: "r", Type: out}}}
	next := circuit.Wire(128)
	add := func(op circuit.Operation, a, b circuit.Wire) circuit.Wire {
		c.Gates = append(c.Gates, circuit.Gate{Op: op, Input0: a, Input1: b, Output: next})
		c.Stats[op]++
		next++
		return next - 1
	}
	x := func(i int) circuit.Wire { return circuit.Wire(i % 64) }
	y := func(i int) circuit.Wire { return circuit.Wire(64 + i%64) }
	prev := make([]circuit.Wire, w)
	for j := range prev {
		prev[j] = add(circuit.XOR, x(j), y(j/64+j))
	}
	for l := 0; l < levels; l++ {
		cur := make([]circuit.Wire, w)
		if l == levels-1 {
			// the output wires are the last wires of the circuit, in order
			ms := make([][2]circuit.Wire, w)
			for j := range cur {
				ms[j] = [2]circuit.Wire{add(circuit.XOR, prev[j], x(j+l)), add(circuit.XOR, prev[(j+1)%w], y(j+3*l))}
			}
			for j := range cur {
				cur[j] = add(circuit.AND, ms[j][0], ms[j][1])
			}
		} else {
			for j := range cur {
				cur[j] = add(circuit.AND, add(circuit.XOR, prev[j], x(j+l)), add(circuit.XOR, prev[(j+1)%w], y(j+3*l)))
			}
		}
		prev = cur
	}
	c.NumGates = len(c.Gates)
	c.NumWires = int(next)
	c.AssignLevels(utils.TargetGMW)
	return c
}

func runC10(cs *vrt.Case) {
	r := cs.Rng
	P := 2 + cs.Idx%4
	triples := cs.Idx%4 == 3
	if triples {
		P = 2 + (cs.Idx/4)%4
	} else {
		P = 2 + (cs.Idx%4+cs.Idx/4)%4 // protocol runs rotate through 2..5 parties as well
	}
	var src string
	var prog *mpclgen.Program
	var inputs []*big.Int
	var circs []*circuit.Circuit
	what := "triples"
	if !triples && (cs.Idx == 9 || cs.Idx == 13 || cs.Idx == 17) {
		// three deep hand-made circuits per run (different depths and inputs): more than 65536 AND levels (one
		// communication round each), values kept lively by an XOR per step
		P = 2
		what = "deep AND chain"
		depth := 65536 + 300 + r.Intn(3000) // three such cases per run: a misplaced gate shows for most but not all inputs
		for i := 0; i < P; i++ {
			circs = append(circs, c10Deep(depth))
		}
		for i := 0; i < P; i++ {
			v := r.Big(8)
			v.SetBit(v, 0, 1) // the chain starts from x0 & y0: keep it alive
			inputs = append(inputs, v)
		}
		cs.Count("deep_circuit_and_levels", int64(depth))
	} else if !triples && cs.Idx%32 == 22 {
		// AND levels wider than the offline batch size and not a multiple of
		// 64 gates, and enough of them to use up what was dealt before
		P = 2
		what = "wide AND levels"
		w := []int{8193, 8255, 9001, 12345}[(cs.Idx/32)%4]
		levels := 500000/w + 2
		for i := 0; i < P; i++ {
			circs = append(circs, c10Wide(w, levels))
		}
		for i := 0; i < P; i++ {
			inputs = append(inputs, r.Big(64))
		}
		cs.Count("wide_level_circuits", 1)
		cs.Count("wide_level_and_gates", int64(w*levels))
	} else if !triples && cs.Idx%16 == 5 {
		// a party without input bits: an unsized []byte argument instantiated with
		// length 0 (a party that only wants the result), at a PRNG position
		P = 3
		what = "party with a zero-width input"
		zero := r.Intn(3)
		names := []string{"a", "b", "c"}
		var args, uses []string
		sizes := make([][]int, 3)
		for i, n := range names {
			if i == zero {
				args = append(args, n+" []byte")
				sizes[i] = []int{0}
			} else {
				args = append(args, n+" uint8")
				sizes[i] = []int{8}
				uses = append(uses, n)
			}
		}
		src = fmt.Sprintf("package main\n\nfunc main(%s) (uint8, uint8, int32) {\n\treturn %s * %s, %s ^ %s, len(%s)\n}\n", strings.Join(args, ", "), uses[0], uses[1], uses[0], uses[1], names[zero])
		for i := 0; i < P; i++ {
			pp := utils.NewParams()
			pp.Target = utils.TargetGMW
			c, err, pan := compileMPCL(src, pp, sizes)
			if err != nil || pan != nil {
				cs.Inconc(fmt.Sprintf("zero-width fixture does not compile: %v %v", err, pan))
				return
			}
			c.AssignLevels(utils.TargetGMW)
			circs = append(circs, c)
		}
		for i := 0; i < P; i++ {
			inputs = append(inputs, r.BoundaryBig(int(circs[0].Inputs[i].Type.Bits)))
		}
		cs.Count("runs_with_a_zero_width_party", 1)
	} else if !triples {
		if cs.Idx%8 == 0 && P <= 3 {
			src = c10Fixtures[(cs.Idx/8)%len(c10Fixtures)]
			if strings.Contains(src, "c uint16") {
				P = 3
			} else {
				P = 2
			}
			what = "fixture"
		} else {
			cfg := mpclgen.Config{Args: P, ScalarArgs: true, Funcs: true, Loops: true, Mult: true, NoConst: true, MaxStmts: 3, Widths: []int{1, 2, 3, 7, 8, 9, 15, 16, 17, 31, 32, 33, 64, 65, 100}}
			if r.Intn(3) == 0 {
				// the GMW divider is large: divisions only at small widths
				cfg.Division, cfg.Widths = true, []int{2, 3, 7, 8, 9, 12}
			}
			prog = mpclgen.Generate(r, cfg)
			src = prog.Src
			what = "generated"
		}
		params := func() *utils.Params { p := utils.NewParams(); p.Target = utils.TargetGMW; return p }
		// a generated program that compiles to more than 200000 gates is
		// replaced by another draw (twice at most) instead of wasting the case
		for try := 0; prog != nil && try < 2; try++ {
			c, err, pan := compileMPCL(src, params(), nil)
			if err != nil || pan != nil || c == nil || c.NumGates <= 200000 {
				break
			}
			cs.Count("programs_too_large_redrawn", 1)
			prog = mpclgen.Generate(r, mpclgen.Config{Args: P, ScalarArgs: true, Funcs: true, Loops: true, NoConst: true, MaxStmts: 3, Widths: []int{1, 2, 3, 7, 8, 9, 15, 16, 17}})
			src = prog.Src
		}
		for i := 0; i < P; i++ {
			c, err, pan := compileMPCL(src, params(), nil)
			if err != nil || pan != nil {
				cs.Count("programs_rejected", 1)
				return
			}
			c.AssignLevels(utils.TargetGMW)
			circs = append(circs, c)
		}
		if circs[0].NumParties() != P {
			cs.Inconc("party count mismatch")
			return
		}
		if circs[0].NumGates > 200000 {
			cs.Count("programs_too_large", 1)
			return
		}
		for i := 0; i < P; i++ {
			inputs = append(inputs, r.BoundaryBig(int(circs[0].Inputs[i].Type.Bits)))
		}
	}
	desc := map[string]any{"kind": what, "parties": P}
	if src != "" {
		desc["program"] = src
		var ins []string
		for _, v := range inputs {
			ins = append(ins, v.Text(10))
		}
		desc["inputs"] = ins
	}
	cs.SetSample(map[string]any{"kind": what, "parties": P, "program": trunc(src, 600)})

	ports := freePorts(r, P)
	if len(ports) < P {
		cs.Inconc("no free ports")
		return
	}
	addr := func(i int) string { return fmt.Sprintf("127.0.0.1:%d", ports[i]) }
	nets := make([]*gmw.Network, P)
	var err error
	nets[0], err = gmw.CreateNetwork(addr(0), P)
	if err != nil {
		cs.Inconc("CreateNetwork: " + err.Error())
		return
	}
	for _, oi := range r.Perm(P - 1) {
		i := oi + 1
		if r.Intn(3) == 0 {
			time.Sleep(time.Duration(r.Intn(2000)) * time.Microsecond)
		}
		nets[i], err = gmw.JoinNetwork(addr(0), addr(i), i)
		if err != nil {
			if strings.Contains(err.Error(), "address already in use") {
				cs.Inconc("port taken")
			} else {
				cs.Violate("C10|join-error", "JoinNetwork failed: "+err.Error(), map[string]any{"case": desc})
			}
			for _, nw := range nets {
				if nw != nil {
					nw.Close()
				}
			}
			return
		}
	}
	counts := make([]int, 0, 8)
	if triples {
		for i := r.Range(3, 8); i > 0; i-- {
			counts = append(counts, c10Counts[r.Intn(len(c10Counts))])
		}
		if cs.Idx%16 == 7 {
			// one request larger than anything the pool ever holds at once (more
			// than 4224 words): it has to be served across several refills
			counts = append(counts, r.Range(275000, 420000))
			cs.Count("triple_requests_larger_than_the_pool", 1)
		}
		desc["counts"] = counts
	}
	type pres struct {
		err   error
		stage string
		out   []*big.Int
		tr    []*gmw.Triples
		pan   *vrt.PanicInfo
		more  [][]*big.Int // outputs of further sessions on the same mesh
	}
	// 0-2 further sessions with fresh inputs on the same mesh (not for the deep circuits: 6 s each)
	var moreInputs [][]*big.Int
	if !triples && what != "deep AND chain" && what != "wide AND levels" {
		for k := r.Intn(3); k > 0; k-- {
			var in []*big.Int
			for i := 0; i < P; i++ {
				in = append(in, r.BoundaryBig(int(circs[0].Inputs[i].Type.Bits)))
			}
			moreInputs = append(moreInputs, in)
		}
	}
	res := make([]pres, P)
	var wg sync.WaitGroup
	d1 := make([]time.Duration, P)
	d2 := make([]time.Duration, P)
	for i := range d1 {
		d1[i] = time.Duration(r.Intn(3000)) * time.Microsecond
		d2[i] = time.Duration(r.Intn(3000)) * time.Microsecond
	}
	jseed := r.U64()
	lagger := r.Intn(P + 1) // P: nobody lags
	lag := time.Duration(r.Range(10, 200)) * time.Millisecond
	for i := 0; i < P; i++ {
		wg.Add(1)
		go func(i int) {
			defer wg.Done()
			res[i].pan = vrt.Guard(func() {
				time.Sleep(d1[i])
				var sizes []int
				if !triples {
					sizes = []int{int(circs[i].Inputs[i].Type.Bits)}
				} else {
					sizes = []int{8}
				}
				if e := nets[i].Connect(sizes); e != nil {
					res[i].err, res[i].stage = e, "Connect"
					return
				}
				time.Sleep(d2[i])
				if triples {
					// parties reach Get at different pool fill levels: one
					// party lags by a few batch generation times, the
					// others jitter between calls
					pr := vrt.Derive(jseed, "c10-jitter", i)
					if i == lagger {
						time.Sleep(lag)
					}
					for _, n := range counts {
						if pr.Intn(3) == 0 {
							time.Sleep(time.Duration(pr.Intn(8000)) * time.Microsecond)
						}
						t := &gmw.Triples{}
						nets[i].Pool.Get(n, t)
						res[i].tr = append(res[i].tr, t)
					}
					return
				}
				out, e := nets[i].Run(inputs[i], circs[i], false)
				if e != nil {
					res[i].err, res[i].stage = e, "Run"
					return
				}
				res[i].out = out
				// further sessions on the same connected mesh (other inputs, the
				// same circuit): a network is not a one-shot object
				for k := range moreInputs {
					out, e := nets[i].Run(moreInputs[k][i], circs[i], false)
					if e != nil {
						res[i].err, res[i].stage = e, fmt.Sprintf("Run (session %d on the same mesh)", k+2)
						return
					}
					res[i].more = append(res[i].more, out)
				}
			})
		}(i)
	}
	done := make(chan struct{})
	go func() { wg.Wait(); close(done) }()
	stats := func() uint64 {
		var s uint64
		for _, nw := range nets {
			on, off := nw.Stats()
			s += on.Sum() + off.Sum()
		}
		return s
	}
	last := stats()
	idle := 0
	for waiting := true; waiting; {
		select {
		case <-done:
			waiting = false
		case <-time.After(time.Second):
			if s := stats(); s != last {
				last, idle = s, 0
				continue
			}
			idle++
			if idle >= 8 {
				var b1, b2 bytes.Buffer
				pprof.Lookup("goroutine").WriteTo(&b1, 2)
				time.Sleep(3 * time.Second)
				pprof.Lookup("goroutine").WriteTo(&b2, 2)
				n1, q1 := partiesQuiescent(b1.String(), "props.runC10.func")
				n2, q2 := partiesQuiescent(b2.String(), "props.runC10.func")
				if q1 && q2 && n1 == n2 && stats() == last {
					cs.Violate("C10|deadlock", fmt.Sprintf("GMW session does not terminate: %d party goroutines parked, no byte moved for 11 s", n1), map[string]any{"case": desc, "stacks": trunc(b2.String(), 8000)})
					return // goroutines are abandoned
				}
				if idle > 200 {
					cs.Inconc("GMW session did not finish and is not quiescent")
					return
				}
			}
		}
	}
	defer func() {
		for _, nw := range nets {
			nw.Close()
		}
	}()
	for i := range res {
		if res[i].pan != nil {
			if res[i].pan.InMPC {
				cs.Violate("C10|panic|"+res[i].pan.Frame, fmt.Sprintf("party %d panicked: %s", i, res[i].pan.Value), map[string]any{"case": desc, "stack": res[i].pan.Stack})
			} else {
				cs.Inconc("harness panic: " + res[i].pan.Value + res[i].pan.Stack)
			}
			return
		}
		if res[i].err != nil {
			cs.Violate("C10|error|"+res[i].stage, fmt.Sprintf("party %d of %d: %s failed: %v", i, P, res[i].stage, res[i].err), map[string]any{"case": desc})
			return
		}
	}
	if triples {
		for ci, n := range counts {
			words := res[0].tr[ci].Words
			for p := 1; p < P; p++ {
				if res[p].tr[ci].Words != words {
					cs.Violate("C10|triples-words", fmt.Sprintf("Pool.Get(%d) returned %d words at party 0 and %d at party %d", n, words, res[p].tr[ci].Words, p), map[string]any{"case": desc})
					return
				}
			}
			if words < (n+63)/64 {
				cs.Violate("C10|triples-short", fmt.Sprintf("Pool.Get(%d) returned only %d words", n, words), map[string]any{"case": desc})
				return
			}
			for w := 0; w < words; w++ {
				var a, b, c uint64
				for p := 0; p < P; p++ {
					a ^= res[p].tr[ci].A[w]
					b ^= res[p].tr[ci].B[w]
					c ^= res[p].tr[ci].C[w]
				}
				cs.Evals++
				if a&b != c {
					cs.Violate("C10|triple-relation", fmt.Sprintf("%d parties, Pool.Get #%d (count %d), word %d: (xor a)&(xor b) = %016x but xor c = %016x", P, ci, n, w, a&b, c), map[string]any{"case": desc})
					return
				}
			}
		}
		cs.Key("triples", fmt.Sprint(P, counts))
		cs.Count("triple_sessions", 1)
		return
	}
	for k, in := range moreInputs {
		f2, e := refc.EvalFlat(circs[0], []*big.Int{refc.Flatten(circs[0].Inputs, in)})
		if e != nil {
			cs.Inconc(e.Error())
			return
		}
		w2 := refc.SplitOut(circs[0].Outputs, f2[0])
		for i := range res {
			cs.Evals++
			if len(res[i].more) <= k || len(res[i].more[k]) != len(w2) {
				cs.Violate("C10|arity", fmt.Sprintf("party %d: session %d on the same mesh returned a wrong number of outputs", i, k+2), map[string]any{"case": desc})
				return
			}
			for j := range w2 {
				if res[i].more[k][j].Cmp(w2[j]) != 0 {
					cs.Violate("C10|wrong-output|later-session", fmt.Sprintf("party %d of %d, session %d on the same mesh: output %d = %s, plain evaluation of the circuit gives %s", i, P, k+2, j, res[i].more[k][j].Text(16), w2[j].Text(16)), map[string]any{"case": desc})
					return
				}
			}
		}
		cs.Count("further_sessions_on_one_mesh", 1)
	}
	flat, e := refc.EvalFlat(circs[0], []*big.Int{refc.Flatten(circs[0].Inputs, inputs)})
	if e != nil {
		cs.Inconc(e.Error())
		return
	}
	want := refc.SplitOut(circs[0].Outputs, flat[0])
	for i := range res {
		cs.Evals++
		if len(res[i].out) != len(want) {
			cs.Violate("C10|arity", fmt.Sprintf("party %d returned %d outputs, the circuit has %d", i, len(res[i].out), len(want)), map[string]any{"case": desc})
			return
		}
		for k := range want {
			if res[i].out[k].Cmp(want[k]) != 0 {
				cs.Violate("C10|wrong-output", fmt.Sprintf("party %d of %d: output %d = %s, plain evaluation of the circuit gives %s", i, P, k, trunc(res[i].out[k].Text(16), 80), trunc(want[k].Text(16), 80)), map[string]any{"case": desc})
				return
			}
		}
	}
	cs.Key(src, fmt.Sprint(inputs), fmt.Sprint(P))
	cs.Count("run_sessions", 1)
	cs.Count("and_gates", int64(circs[0].Stats[circuit.AND]))
	cs.Seen("parties", fmt.Sprint(P))
}
