#!/bin/bash
# Warms the Go build cache (plain and -race builds of the harness). Offline.
set -e
cd "$(dirname "$0")"
. ./env.sh
mkdir -p bin evidence
cp /repo/go.sum harness/go.sum
(cd harness && go build -tags verif -o ../bin/vcheck ./cmd/vcheck)
(cd harness && go build -tags verif -race -o ../bin/vcheck-race ./cmd/vcheck)
(R=$(pwd); cd /repo && go build -o $R/bin/garbled ./apps/garbled)
echo setup ok
