#!/bin/bash
# seedtest2.sh <name> <check id> [tier] : like seedtest.sh but leaves /repo alone - the patch is applied to a
# scratch worktree of /repo's HEAD and the check runs from a scratch copy of /verif with VERIF_REPO pointing at it
# (for use while a background sweep is reading /repo). Everything is removed afterwards.
set -u
NAME=$1; CHK=$2; TIER=${3:-quick}
S=/tmp/st/$NAME.$$; mkdir -p /tmp/st
git -C /repo worktree add --detach $S/repo HEAD >/dev/null 2>&1 || exit 1
git -C $S/repo apply ${SEEDDIR:-/verif/seeded}/$NAME/patch.diff || { git -C /repo worktree remove --force $S/repo; exit 1; }
rsync -a --exclude bin --exclude evidence --exclude replays --exclude .git --exclude seeded /verif/ $S/verif/
(cd $S/verif && VERIF_REPO=$S/repo timeout 3000 ./run.sh $CHK $TIER 2>&1 | grep -av "replay=" | tail -${LINES_OUT:-6} | cut -c1-400)
git -C /repo worktree remove --force $S/repo; rm -rf $S
