#!/bin/bash
# seedround.sh <base dir> <suffix> <ids...> : import each finished seeded change and run its property's quick check on a scratch copy
BASE=$1; SUF=$2; shift 2
for id in "$@"; do
  echo "######## $id"
  SEEDBASE=$BASE /verif/seedimport.sh $id ${id}$SUF 2>&1 | grep -av "^ok\|no test files" | grep -a "patch:\|demo files\|FAIL\|must\|stored\|zz_seeded" | head -14
  LINES_OUT=5 /verif/seedtest2.sh ${id}$SUF $id quick 2>&1 | grep -av KNOWN-FINDING | cut -c1-330
done
