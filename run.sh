#!/bin/bash
# run.sh <ID> quick|thorough — rebuilds the harness against /repo's current
# working tree (hooks on: -tags verif) and runs one property's check.
set -u
ID=${1:?property id}; TIER=${2:-${VERIF_TIER:-quick}}
cd "$(dirname "$0")"
. ./env.sh
mkdir -p bin evidence
cp /repo/go.sum harness/go.sum
build() { # $1 = output, rest = flags
  local out=$1; shift
  (cd harness && go build -tags verif "$@" -o ../bin/$out ./cmd/vcheck) 2>bin/build.$out.log
  local rc=$?
  if [ $rc -ne 0 ]; then
    echo "BUILD FAILED ($out): /repo does not compile with the harness" >&2
    cat bin/build.$out.log >&2
    exit 3
  fi
}
# flock: concurrent run.sh invocations share one build
exec 9>bin/.buildlock
flock 9
build vcheck
case "$ID:$TIER" in
  C17:*|C11:thorough|C01:thorough) build vcheck-race -race ;;
  C08:*) # the repository's own command line tool, driven as OS processes
    (R=$(pwd); cd /repo && go build -o $R/bin/garbled.$$ ./apps/garbled) 2>bin/build.garbled.log && mv bin/garbled.$$ bin/garbled || {
      echo "BUILD FAILED (apps/garbled)" >&2; cat bin/build.garbled.log >&2; exit 3; } ;;
esac
flock -u 9
exec ./bin/vcheck run "$ID" --tier "$TIER"
