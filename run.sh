#!/bin/bash
# run.sh <ID> quick|thorough — rebuilds the harness against /repo's current
# working tree (hooks on: -tags verif) and runs one property's check.
set -u
ID=${1:?property id}; TIER=${2:-${VERIF_TIER:-quick}}
cd "$(dirname "$0")"
. ./env.sh
mkdir -p bin evidence
# The registered checks always run against /repo. VERIF_REPO (never set by
# MANIFEST commands) lets a background sweep of my own run against a copy, e.g.
# a patched scratch worktree, without touching /repo.
REPO=${VERIF_REPO:-/repo}
cp $REPO/go.sum harness/go.sum
MODFLAG=
if [ "$REPO" != /repo ]; then
  sed "s|=> /repo|=> $REPO|" harness/go.mod > harness/alt.mod; cp harness/go.sum harness/alt.sum
  MODFLAG=-modfile=alt.mod
fi
build() { # $1 = output, rest = flags
  local out=$1; shift
  (cd harness && go build $MODFLAG -tags verif "$@" -o ../bin/$out ./cmd/vcheck) 2>bin/build.$out.log
  local rc=$?
  if [ $rc -ne 0 ]; then
    echo "BUILD FAILED ($out): /repo does not compile with the harness" >&2
    cat bin/build.$out.log >&2
    exit 3
  fi
}
# flock: concurrent run.sh invocations share one build
exec 9>bin/.buildlock
flock 9
build vcheck
case "$ID:$TIER" in
  C17:*|C11:thorough|C01:thorough) build vcheck-race -race ;;
  C08:*) # the repository's own command line tool, driven as OS processes
    (R=$(pwd); cd $REPO && go build -o $R/bin/garbled.$$ ./apps/garbled) 2>bin/build.garbled.log && mv bin/garbled.$$ bin/garbled || {
      echo "BUILD FAILED (apps/garbled)" >&2; cat bin/build.garbled.log >&2; exit 3; } ;;
esac
flock -u 9
exec ./bin/vcheck run "$ID" --tier "$TIER"
