#!/bin/bash
# [SEEDBASE=/tmp/seed2] [DEMOTAGS="-tags verif"] seedimport.sh <id> [name] : verify a seeded change produced in /tmp/seed/<id> and store it under /verif/seeded/<name>
set -u
ID=$1; NAME=${2:-$1}; BASE=${SEEDBASE:-/tmp/seed}; WT=$BASE/$ID; OUT=/verif/seeded/$NAME; TAGS=${DEMOTAGS:-}
. /verif/env.sh
cd $WT || exit 1
git diff > $BASE/$ID.patch
[ -s $BASE/$ID.patch ] || { echo "no tracked change in $WT"; exit 1; }
DEMOS=$(git ls-files --others --exclude-standard | grep '_test.go$')
echo "patch: $(git diff --stat | tail -1)"; echo "demo files: $DEMOS"
PKGS=$(git diff --name-only | xargs -n1 dirname | sort -u | sed 's|^|./|')
DEMOPKGS=$(for f in $DEMOS; do echo ./$(dirname $f); done | sort -u)
echo "== build"; go build ./... || exit 1
echo "== existing tests of touched packages (+ dependants) with change (demo files moved aside)"
mkdir -p $BASE/$ID.demo; for f in $DEMOS; do mkdir -p $BASE/$ID.demo/$(dirname $f); mv $f $BASE/$ID.demo/$f; done
go test -count=1 -timeout 20m $(go list ./... | grep -v '^github.com/markkurossi/mpc$') 2>&1 | grep -v '^ok\|no test files' | head -20
echo "   (root TestSuite:)"; go test -count=1 -timeout 20m . 2>&1 | grep 'testsuite_test.go:1[0-9][0-9]' | grep -v sha512 | head -5
for f in $DEMOS; do mv $BASE/$ID.demo/$f $f; done
echo "== demo WITH change (must fail)"
go test $TAGS -count=1 -timeout 10m -run 'Seeded|Demo|seeded|demo' $DEMOPKGS 2>&1 | tail -5
WITH=$?
echo "== demo WITHOUT change (must pass)"
git apply -R $BASE/$ID.patch   # (git stash is shared between worktrees: never use it here)
go test $TAGS -count=1 -timeout 10m -run 'Seeded|Demo|seeded|demo' $DEMOPKGS 2>&1 | tail -3
git apply $BASE/$ID.patch
mkdir -p $OUT
cp $BASE/$ID.patch $OUT/patch.diff
for f in $DEMOS; do mkdir -p $OUT/demo/$(dirname $f); cp $f $OUT/demo/$f; done
[ -f SEEDED.md ] && cp SEEDED.md $OUT/SEEDED.md
echo "stored in $OUT"
