#!/bin/bash
# seedall.sh [parallel] : re-run every stored seeded change against the quick check of its property
# (scratch copies, /repo untouched); prints one line per change: CAUGHT / MISSED.
P=${1:-3}
cd /verif/seeded
ls -d C* | xargs -P $P -I{} bash -c '
  n={}; if python3 -c "import json,sys;sys.exit(0 if json.load(open(\"/verif/seeded/$n/meta.json\")).get(\"obsolete\") else 1)"; then echo "SKIPPED $n (obsolete, see meta.json)"; exit 0; fi
  prop=$(python3 -c "import json;m=json.load(open(\"/verif/seeded/$n/meta.json\"));print(m.get(\"check\") or m[\"property\"])")
  out=$(LINES_OUT=40 /verif/seedtest2.sh $n $prop quick 2>&1)
  v=$(echo "$out" | grep -ao "violations=[0-9]*" | tail -1)
  if echo "$out" | grep -aq "violations=[1-9]"; then echo "CAUGHT $n $prop $v"; else echo "MISSED $n $prop $v :: $(echo "$out" | tail -2 | tr "\n" " " | cut -c1-200)"; fi'
