#!/bin/bash
# sweep.sh <tier> <seed> [ids...] : run the given (default all) checks and print one summary line per check
TIER=${1:-quick}; SEED=${2:-1}; shift 2
IDS=${@:-C01 C02 C03 C04 C05 C06 C07 C08 C09 C10 C11 C12 C13 C14 C15 C16 C17 C18 C19 C20}
cd "$(dirname "$0")"
for id in $IDS; do
  out=$(VERIF_SEED=$SEED ./run.sh $id $TIER 2>&1); rc=$?
  echo "rc=$rc $(echo "$out" | grep -v 'replay=\|KNOWN-FINDING' | tail -1 | cut -c1-200)"
  echo "$out" | grep 'VIOLATION\|BROKEN-RUN\|key=' | head -5 | cut -c1-300
done
