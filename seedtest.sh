#!/bin/bash
# seedtest.sh <name> <check id> [tier] : apply /verif/seeded/<name>/patch.diff to /repo, run the check, undo
set -u
NAME=$1; CHK=$2; TIER=${3:-quick}
cd /repo && git diff --quiet || { echo "/repo has local changes"; exit 1; }
git -C /repo apply /verif/seeded/$NAME/patch.diff || exit 1
cd /verif && timeout 3000 ./run.sh $CHK $TIER 2>&1 | grep -av "replay=" | tail -${LINES_OUT:-6} | cut -c1-400
git -C /repo checkout -- .
git -C /repo status --short | head -3
