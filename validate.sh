#!/bin/bash
# validates MANIFEST.json and every evidence file against the schemas
python3-vt - <<'PY'
import json,jsonschema,glob,sys
ok=True
def v(f,s):
    global ok
    try:
        jsonschema.validate(json.load(open(f)), json.load(open(s)))
    except Exception as e:
        ok=False; print("INVALID",f,str(e)[:300])
v('/verif/MANIFEST.json','/root/.vp/MANIFEST.schema.json')
for f in sorted(glob.glob('/verif/evidence/*.json')): v(f,'/root/.vp/EVIDENCE.schema.json')
print("all valid" if ok else "FAILED"); sys.exit(0 if ok else 1)
PY
