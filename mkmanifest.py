#!/usr/bin/env python3
"""Regenerates MANIFEST.json from the table below (kept valid at all times)."""
import json, sys
BASE_OFF = ("cd /repo && . /verif/env.sh && go build ./... && "
            "go test -json -vet=off -count=1 -timeout 25m ./...")
CHECKS = {
 "C01": dict(level="exploration", sec="4/C01",
   technique="runtime monitor: garble+eval on generated/parsed circuits with monitor-driven permute bits, judged by an independent bit-sliced truth-table evaluator",
   text="Exploration: the real Garble/Eval/Compute run on thousands of generated circuits (all gate types, wire reuse, fan-out) with steered point-and-permute bits, all or sampled inputs and all key sizes; every output label is decoded and compared with an independent evaluator. Held-on-K-executions evidence, not a proof.",
   note="Trusts the harness's 20-line bit-sliced evaluator (refc) as the meaning of plain evaluation; input labels are picked by the monitor from Garbled.Wires."),
 "C06": dict(level="exploration", sec="4/C06",
   technique="runtime monitor at the ot.OT / IKNP API boundary: sender wires vs receiver labels, monitor-chosen Delta, ideal base OT",
   text="Exploration: every OT implementation (RSA, CO, COT, ROT; semi-honest/malicious; shared/unshared) is run sender against receiver over three transports for boundary batch sizes, several batches per instance and fixed choice patterns; raw IKNP (label and packed-bit form) is run over an ideal base OT with Delta chosen by the monitor so that Delta_0=0/1 are both driven; CO helpers on four curves. Oracle is exact and per position.",
   note="Both parties run in one process; the ideal base OT under raw IKNP is harness code."),
 "C07": dict(level="exploration", sec="4/C07",
   technique="runtime monitor: builders called the two ways the code base calls them, compiled circuits evaluated bit-sliced (exhaustive operands for small widths) against math/big",
   text="Exploration with exhaustive sub-spaces: every builder x both targets x both call modes x all width pairs 1..5 (quick) / 1..8 (thorough) x five result widths with ALL operand values when they total <= 12 bits, plus widths 15..130 and every Karatsuba threshold with boundary/random operands. Known findings (subtractor sign fill, Goldschmidt inexactness) are keyed by call-site class so other failures still fail the check.",
   note="math/big is the specification; divisor 0 and out-of-range index excluded as the property says; Karatsuba limits below 8 are not driven (the code base never passes them)."),
 "C13": dict(level="exploration", sec="4/C13",
   technique="runtime monitor: generated argument shapes/values through IOArg.Parse/Set, Sizes/InputSizes, mpc.Result and IO.Split against an independent bit-level encoder",
   text="Exploration: generated compound/array/scalar argument shapes (widths 1..130, 0-length arrays, short literals) with boundary values in all spellings; bits compared with the harness's own encoder, non-interference by changing one member, size inference, decode/repeat/no-mutation of results.",
   note="The harness's encoder (little-endian two's complement per element, declaration order) is the specification; array literals are generated only in hex, the one spelling whose width is unambiguous."),
 "C14": dict(level="fault_enumeration", sec="4/C14",
   technique="runtime monitor: round trips of generated circuits; layout-aware mutation of valid files (all truncations, all single-bit flips for small files, field splicing) judged by a well-formedness checker; panic/hang detection",
   text="Fault enumeration on small files (every truncation point and every single-bit flip of files <= 260 bytes, every count/length field set to chosen values) and sampled on larger ones, for both parsers; plus round trips of generated and compiled circuits with typed/compound/long-named I/O. Oracle: error or well-formed circuit; panic or 90 s hang is a violation.",
   note="Files that declare a size above 10^6 are outside the property's precondition and skipped (counted). Well-formedness is exactly what the statement promises (defined-before-use, every wire assigned)."),
 "C15": dict(level="fault_enumeration", sec="4/C15",
   technique="fault injection in transit (TamperIO on the sender) over a fresh malicious-mode IKNP session per fault; correlation oracle; independent shadow receiver with its own carry-less multiplier in honest runs",
   text="Fault enumeration: in thorough every (column,row) single-bit flip of the 64-row payload matrix and of the 256-row check matrix (40960 sessions), every bit of seed/x/t0/t1, plus double/column/row/k-subset flips and COT/ROT-level faults for several n; quick samples the same space. Oracle: sender error or correlation intact for the receiver's original choices. Honest runs must not abort and must match an independently recomputed receiver.",
   note="Faults are bit flips in transit chosen beforehand, plus one family of strictly causal adaptive multi-flips (no look-ahead); the base OT is an ideal in-memory OT (harness code) so that the extension itself is what is under test."),
 "C18": dict(level="exploration", sec="4/C18",
   technique="runtime monitor over the round API: deterministic per-round randomness, encode/decode subsets, one OS process per round, foreign-session/curve objects, truncation sweeps and mutations with recover()",
   text="Exploration (truncation sweeps are exhaustive for the small encodings): protocol runs on four curves against crypto/sha256, all 31 restart subsets across cases with byte-identical transcripts, real process-per-round runs exchanging files, fixed encoded sizes, rejection of foreign session/curve objects, every truncation of the small encodings, mutations that must never panic a decoder or the consuming round.",
   note="crypto/sha256 is the reference; a damaged message need not be rejected by its decoder (a flipped label is a well-formed message), but the round that consumes it must end in an error or in the correct digest."),
 "C20": dict(level="exploration", sec="4/C20",
   technique="runtime monitor at the vole/bmr API: both parties' return values recombined with math/big",
   text="Exploration: VOLE for boundary vector lengths (1..2000 across extension chunks), nine moduli incl. 2 and 2^256-189, boundary elements and values >= p, CO and ideal base OT, two transports, several Mul calls per instance; bmr.Fx/Fxk exhaustively over (a,b) and label patterns with CO and COT. Oracle: u-r == x*y mod p per position; r xor x_b == a*b / b*s.",
   note="math/big is the specification; both parties in one process."),
}

CHECKS.update({
 "C02": dict(level="exploration", sec="4/C02",
   technique="runtime monitor: circuit.Garbler vs circuit.Evaluator over a fragmenting/delaying tap transport and p2p.Pipe, OT recorder at the API boundary, reference evaluator, stall detector",
   text="Exploration: generated two-party circuits (1-bit, odd, unequal widths, 1-3 outputs), compiled fixtures and shipped test programs x {CO, COT, COT-malicious, RSA-1024} x transport fragmentation modes; all input pairs when they total <= 8 bits. Oracle: both parties finish without error with identical values equal to the reference evaluation split per declared output; a 30 s quiescent stall is a violation.",
   note="Both parties are goroutines of one process; the harness closes a party's connection when it returns so a failed peer cannot block the other for ever."),
 "C03": dict(level="exploration", sec="4/C03",
   technique="runtime monitor: (1) every shipped @Test vector replayed exactly as testsuite_test.go does; (2) generated MPCL programs compiled and their circuits evaluated bit-sliced against a reference interpreter, with automatic statement-level minimisation of witnesses",
   text="Exploration: all shipped vectors (203; the five sha512 programs are unavailable because their native circuit files are empty) plus 1500 (quick) / 30000 (thorough) generated programs over the typed grammar of DESIGN 3.5 (about 99% compile), exhaustive inputs up to 10 bits else 48 boundary/random vectors; evidence lists the SSA opcodes and language features reached. Known finding: MPCL has no block scopes (an inner var of an existing name assigns the outer variable).",
   note="The reference interpreter is the specification for the generated part; its grammar is restricted to constructs whose meaning the documentation and annotated programs fix, and (in this check) to operands that are not compile-time constants - folded constants are C12's subject."),
 "C04": dict(level="exploration", sec="4/C04",
   technique="offline checker over the recorded garbler->evaluator transcript: hash set of the 16-byte window at every byte offset, membership test for R and for w xor R; R taken at the ot.OT.Send boundary or by differential garbler runs",
   text="Exploration: complete transcripts of whole-circuit sessions (4 OT kinds), streaming sessions and sha2pc round messages (1-14 MB per run in total); linear-time exact check of the statement's syntactic property with the witness mapped to its message field. Found and repaired a tweak-reuse leak in streaming mode; the sha2pc output-hint leak is a known finding.",
   note="Syntactic transcript property as stated, not a simulation-based security argument; chance collisions need a 2^-128 event."),
 "C05": dict(level="exploration", sec="4/C05",
   technique="runtime monitor: Compiler.Stream vs circuit.StreamEvaluator over a tap, compared with the reference evaluation of the whole compiled circuit; verif hook counting 16-/32-bit wire-id encodings; witness minimisation",
   text="Exploration: generated two-party programs with aliasing bias (shifts, casts, element/field updates, arrays and structs as arguments), unsized main signatures instantiated from exchanged input sizes, and a program that keeps more than 65535 wire ids live; OT in {CO, COT}. Oracle: both parties' values and output types equal the whole circuit's. The run fails as 'observed nothing' unless both wire-id encodings were seen.",
   note="Relies on C03 for 'the whole circuit means the program'; inputs go through the textual interface as in apps/garbled."),
 "C08": dict(level="exploration", sec="4/C08",
   technique="runtime monitor: sha256 of Circuit.Marshal, of the SSA listing and of the I/O description compared across fresh instances, one reused instance with a history of other compilations, concurrent goroutines and separate OS processes",
   text="Exploration: 70+ shipped programs and examples that import library packages, fixtures importing several packages with package-level constants/variables, and generated programs, under {default, prune, GMW, GMW+prune}; per program 6+3 in-process, 4 concurrent and 2 separate-process compilations (thorough 12/8/6). Go re-randomises map iteration per range statement and process, so an order dependence between two map elements survives N compilations with probability 2^-(N-1).",
   note="Cannot vary the file system's directory order; slow programs get fewer repetitions (counted)."),
 "C09": dict(level="exploration", sec="4/C09",
   technique="differential runtime monitor: one program compiled under 14 option/target configurations, all circuits evaluated bit-sliced on the same vectors and compared with each other and with the reference interpreter",
   text="Exploration: generated programs (multiplications across every threshold, divisions, constant operands, pass-through outputs) and shipped lang/math programs under {prune off/on} x {mult threshold 0,8,16,21,40,1000} x Yao and {prune off/on} x GMW; exhaustive inputs up to 10 bits else 32 vectors. A run must have seen structurally different circuits for the same program.",
   note="Differential oracle for shipped programs, interpreter for generated ones; the GMW divider's known inexactness (C07) would appear here under key C09|GMW|program-with-division."),
 "C12": dict(level="exploration", sec="4/C12",
   technique="differential runtime monitor, fully enumerated: P_const (operator on typed constants) vs P_run (same operator on run-time inputs), folding confirmed from the SSA listings, circuits evaluated on the same values",
   text="Exploration of a fixed, PRNG-free matrix: 19 operators x int/uint x 15 widths x all ordered pairs of a boundary list (5 values quick, 7 thorough) x consumers (as is, + x, / x, < x, shifted, cast wider/narrower): 35k (quick) / 118k (thorough) folded expressions. About 13% disagree with run-time evaluation on the unchanged tree; these are known findings keyed (operator, signedness, width class) - the enumeration is deterministic so the failing classes are reproducible, and any class not listed, and any compiler crash, still fails the check.",
   note="Within a listed (operator, signedness, width class) a new wrong value cannot be told from the known ones; that is the price of recording this defect family instead of repairing it."),
})


CHECKS.update({
 "C10": dict(level="exploration", sec="4/C10",
   technique="runtime monitor over real loopback GMW meshes: every party's Run outputs against the reference evaluation of the GMW-compiled circuit; dealt triples drawn identically from every party's pool and recombined word by word; quiescent-deadlock detector",
   text="Exploration: 2-5 parties, PRNG join order and start delays; generated n-argument programs (multipliers, comparators, dividers, AND batches of odd sizes) and fixtures compiled for TargetGMW; triple sessions draw counts such as 1, 63, 64, 65, 4095-4097, 9000 and check (xor a)&(xor b) == xor c on every 64-bit word including round-up bits.",
   note="All parties are goroutines of one process talking TCP over loopback; the race detector is deliberately not an oracle here."),
 "C11": dict(level="exploration", sec="4/C11",
   technique="runtime monitor: PRNG operation scripts through p2p.Conn over a fragmenting/delaying/lazy-copying tap (and p2p.Pipe), unique payloads, byte-counter comparison with the transport's own counts; Go race detector in the thorough tier; inactivity stall detector",
   text="Exploration: scripts of 1-400 typed operations per direction in both directions at once, payload sizes around 0, 16, 64 KiB, 3x64 KiB, 1 MiB, 2.5 MiB, values straddling buffer ends, flushes at PRNG positions, read fragmentation from 1 byte to whole buffers; Close must deliver buffered data and the peer must then see EOF; Stats must equal the bytes the tap moved. Thorough (1200 scripts, 3.8 GB) runs under -race: a report with p2p frames is a violation.",
   note="One goroutine per connection end, as in the protocol code; behaviour after transport errors is outside the statement."),
 "C16": dict(level="fault_enumeration", sec="4/C16",
   technique="fault injection in transit at chosen stream offsets of both directions, one OS process per faulty session under an address-space limit, outcome classification, result oracle against the reference evaluation",
   text="Fault enumeration: six configurations (whole-circuit CO/COT/COT-malicious on 2-3-output circuits, streaming CO) with identical randomness per configuration; thorough injects a byte replacement at EVERY byte offset of both directions plus bit flips and 2-64 byte bursts (54k sessions), quick a PRNG subset (670). Oracle: garbler err == nil implies the correct result; errors, stalls (0.3 s quiescence), garbler panics and process-fatal out-of-memory aborts are allowed outcomes and counted.",
   note="Random corruption, not structured rewrites by an active attacker (e.g. complementing one IKNP row flips a choice bit consistently); each faulty session is a child process because corrupted lengths make the code ask for 4-64 GiB."),
 "C17": dict(level="exploration", sec="4/C17",
   technique="Go race detector over a stress workload on one fresh shared circuit value, plus value oracles (reference evaluation, deep snapshots of live garblings, backing-array registry)",
   text="Exploration: 48 (quick) / 400 (thorough) fresh circuits, each shared by 2-64 goroutines released by a barrier and running 30-300 operations from {Garble, Eval own, Compute, Release, double Release, hold-and-recheck}; every run is under -race with halt_on_error=0 and reports are filtered to circuit frames; distinct completion orders are counted as the interleavings observed.",
   note="Race detection is dynamic: it reports races on executed paths only; repeated fresh circuits are what gives it reach."),
 "C19": dict(level="exploration", sec="4/C19",
   technique="runtime monitor over real loopback meshes with verif-tagged hook points in p2p/network.go that log event order and inject PRNG delays; exactly-once token exchange on every connection; quiescent-deadlock detector",
   text="Exploration: 2-6 parties x 1-4 connections, leader first then PRNG join orders and start delays, 0-5 ms hook delays at five accept/dial points (notably between counting an accepted connection and registering its peer). After all Connect calls return: structure check and a unique token per (i->j, k) that must arrive on the same index at the other end and nowhere else. Found and repaired a setup hang; 944 distinct accept orders in 1500 meshes.",
   note="Loopback TCP only; kernel behaviour varies in timing only."),
})

PENDING = {}
def main():
    props=[json.loads(l) for l in open('/verif/properties.jsonl')]
    checks=[]
    na=[]
    for p in props:
        i=p['id']
        if i in CHECKS:
            c=CHECKS[i]
            checks.append({
              "property_id": i,
              "quick_cmd": f"./run.sh {i} quick",
              "thorough_cmd": f"./run.sh {i} thorough",
              "evidence_file": f"/verif/evidence/{i}.json",
              "replay_cmd_template": "./bin/vcheck replay {path}",
              "engine": "vcheck",
              "level_claimed": {"category": c["level"], "text": c["text"], "design_ref": "DESIGN.md §"+c["sec"]},
              "level_note": c["note"],
              "technique": c["technique"],
            })
        else:
            na.append({"property_id": i, "reason": PENDING.get(i, "monitor designed (DESIGN.md §4) but not built yet in this revision; not claimed until its check runs clean")})
    m={
      "version": 1,
      "setup_cmd": "./setup.sh",
      "hooks": {
        "guard": "verif",
        "enable": "go build -tags verif (run.sh builds the harness, and with it /repo's packages, with -tags verif)",
        "baseline_off_cmd": BASE_OFF,
        "source_commits": HOOK_COMMITS,
        "add_only": True,
      },
      "engines": [{"name": "vcheck", "path": "/verif/harness", "serves_properties": sorted(CHECKS),
                   "kind_free_text": "Go runtime-monitoring harness: driver + worker processes running the real packages of /repo under generated workloads, with oracles over API values, transport transcripts, hook events and race-detector reports"}],
      "checks": checks,
      "notes": "Runtime monitoring and sanitizers only. run.sh rebuilds from /repo's working tree on every call. Known findings: /verif/known_findings.json.",
      "not_applicable": na,
    }
    json.dump(m, open('/verif/MANIFEST.json','w'), indent=1)
    print("checks:", len(checks), "not claimed:", len(na))

# workloads and oracles added while testing against seeded changes (DESIGN.md §13, rounds 4-5)
ADDED = {
 "C01": " Histories: the same key buffer refilled in place, garblings on a label source that dies part-way between good ones, kept (unreleased) garblings evaluated again after all later garblings; some cases run as 2-3 concurrent sessions in one process. The last garbling of every fourth random-circuit case uses a degenerate label source (all-zero, all-ones, one repeated label, partly zero labels). Every 16th random-circuit case has 1023-4100 input wires, all folded into the outputs.",
 "C02": " Every third case runs its sessions in concurrent groups on one shared *Circuit (half on a single P); signed arguments are handed over as negative numbers; some sessions have a garbler entropy source that dies part-way (a reported success must still be right); concurrent twin sessions in one process. Some sessions run with the parties' verbose flag set, some with a garbler entropy source that delivers short reads (1, 16 or 255 bytes per call).",
 "C03": " The generator also emits range loops, copies of arrays/structs, array/struct parameters and results, literal stores; every fifth program is compiled for the GMW target; some cases compile 2-3 programs concurrently. Selects of two distinct literals (if c {x=L1} else {x=L2}); GMW-target programs carry no division or modulo. Literals include powers of two and 32-bit literals with the top bit set next to wider operands. Every third loop is followed by a counting loop whose init clause assigns an outer variable (half of them with zero iterations).",
 "C04": " Also: a scripted deviating peer asking for other OT ranges, and sessions whose entropy source dies after a PRNG number of bytes (R from a healthy twin session of the same seed; the transcript is scanned whether or not the session aborted). Streaming sessions rotate through fixed programs, programs around a harness-generated native circuit (called three times, once with a typed constant argument narrower than the circuit's input) and operator-then-AND programs (every operator's result feeds AND gates). A quarter of the sessions of both modes draw their randomness from a source that delivers short reads (1-255 bytes per call).",
 "C05": " Three dense PRNG-parameterised families next to the general generator: alias chains/fans, element/field stores of values narrower/equal/wider than the slot, and unrolled loops with thousands of values of interleaved lifetimes; concurrent twin sessions. A native-circuit family (harness-generated circuit file called three times, once with a narrower typed constant) and selects of two literals in the store family. A library-program family (encoding/hex, crypto/aes: package-level variables) is streamed twice by one Compiler instance, optionally after a Compile on that instance; some streams use a short-reading entropy source. A fixture of signed comparisons, division and remainder of an int64 with 32-bit literals whose top bit is set.",
 "C06": " Plain Chou-Orlandi keeps the full size list (batches over 1024); every tenth case has entropy sources that die part-way (a reported success must still deliver the chosen labels); concurrent twin transfers in one process. RSA and CO instances also swap roles on one instance; transfers over a transport that breaks at a PRNG receive call (both parties reporting success must still mean the chosen labels); sessions that never terminate are detected positively (two goroutine dumps). Destinations (label slices and packed-bit words, both ends) are recycled buffers that still hold old contents in a third to half of the calls.",
 "C08": " Also: other programs compiled first with new Compiler instances on one shared Params object; failed compilations in the history of a reused instance; the command line tool as OS processes. A wide-constants family: the same > 64-bit constants folded in sibling programs of other result types compiled first in the process, compared with separate processes that compile the program as their first and only one. A user-library family: 3-6 sibling packages found through Params.PkgPath, each with a constant, an initialised variable and interned symbols; fixtures and this family get three times the repetitions. The user libraries also hold a folded operation on a literal wider than a machine word and a type with a pointer-receiver method called twice.",
 "C10": " Protocol runs rotate through 2..5 parties; three hand-made circuits of more than 65536 AND levels (bijective non-linear feedback register) per run. Further sessions on the same mesh with other inputs; a party with a zero-width input; widths up to 100 bits; every 16th case has one AND level larger than the triple pool. Hand-made circuits with levels of 8193/8255 AND gates (9001 and 12345 in thorough) and more than 500000 AND gates in total.",
 "C11": " Every slice ReceiveData returned is kept (not copied) and compared again after all later receives; every eighth case drives each end from a sender and a receiver goroutine at once.",
 "C12": " Plus two-operator sequences on the same constants: a value that differs from the run-time form and from its isolated fold is history dependence (new key family fold-depends-on-history). Failing tuples of the 78 known folding classes are compared with 19144 witnesses pinned from the unchanged tree (known_witnesses/C12.txt); another failing tuple of a known class is reported as a new witness. Constant-identity probes: a folded value next to a constant that is its sign extension from 32 bits, differs by 2^32, or agrees in the low 32 bits; folded form, run-time form and plain arithmetic must agree. Probes of folded int64 division by powers of two and their neighbours with negative dividends.",
 "C15": " Plus a strictly causal adaptive tamperer over two batches on one instance: from what already crossed the wire it predicts the next challenge, finds a zero-sum row set by elimination over GF(2) and flips one Delta-selected column in those rows. Batch sizes whose last check chunk is 3 mod 4 long (3, 7, 131, 1027, 2047, 2051). Receive destinations that still hold old labels (extension level and COT/ROT level). A tamperer betting on an all-zero challenge seed while the receiver's entropy source dies at the start of one of its last draws. 2-4 batches on one sender/receiver pair with small later batches and one flip in a later batch.",
 "C16": " Also single-bit flips (all bits of the short transcripts in thorough), paired and constant-mask corruptions 16 bytes apart, and every bit of the first eight bytes of the first two and last four transport writes of each direction (message framing). Eight configurations (whole-circuit incl. one with 90 result bits, streaming incl. repeated result wires); framing-bit faults at flush-unit starts; faults on the last 64 16-byte units. Three of the eight configurations run with the parties' verbose flag set.",
 "C17": " Odd goroutines refill one key buffer in place; some garblings run on a label source that dies part-way; some garblings are kept by their slices only (handle dropped, never released) while garbage collections are forced. Every second case runs with goroutine-local logs instead of a monitor mutex (no synchronisation between goroutines that could hide a race); every sixth case is a release storm in a non-race child process on all cores (large circuit, release bursts against goroutines that never release).",
 "C18": " A round-3 message damaged in one bit of any field, or answering another round-2 message of the same session id, must yield an error or the correct digest; absurd well-formed uvarint lengths (2^31..2^64-1) are spliced into the framed encodings; interleaved sessions in one process. Own messages and session states re-encoded with a session id that differs in one bit (all 64 positions over the cases) must be refused by the consuming round.",
 "C20": " Word-sized moduli, concurrent Fx/Fxk sessions and concurrent twin VOLE sessions in one process. Fx/Fxk sessions over a receiver transport that breaks at a PRNG receive call.",
 "C07": " Failing tuples of the known Goldschmidt finding are compared with 60 witnesses pinned from the unchanged tree; another failing tuple of the same signature is reported as a new witness. The known subtractor finding is recognised by its exact signature (low max+1 bits right, no sign fill); a known-signature mismatch on sampled operands no longer ends the scan of the tuple's other vectors.",
 "C09": " Failing inputs of exhaustive division templates are compared with 8 pinned witnesses. Division templates at widths 10-34 (above the exhaustive range, among them non-powers of two) with small divisors among the vectors; a known-signature mismatch no longer ends the scan of a template's vectors. Every fourth division-family case is an exhaustively evaluated unsigned division of 5-8 bits whose failing inputs are pinned.",
 "C14": " Round trips of instantiated unsized signatures (programs compiled with explicit input sizes). Hostile type texts ([]uint0, [][]uint8, [4]uint0, absurd sizes, unknown names ...) are spliced into the type field of native files with the length kept consistent; a third of the mutation corpus has typed compound signatures.",
 "C19": " In half of the meshes every party sends on all its connections the moment its own Connect returns; every fourth mesh is formed through a relay that opens the onward leg of a connection after that of the same dialer's next connection (connections accepted out of dial order).",
 "C13": " String results contain NUL (trailing, leading, all-zero), control and high bytes.",
}
for _k, _v in ADDED.items():
    CHECKS[_k]["text"] += _v

HOOK_COMMITS = ['945a966', 'ac723c0']
if __name__ == "__main__":
    main()
