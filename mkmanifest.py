#!/usr/bin/env python3
"""Regenerates MANIFEST.json from the table below (kept valid at all times)."""
import json, sys
BASE_OFF = ("cd /repo && . /verif/env.sh && go build ./... && "
            "go test -json -vet=off -count=1 -timeout 25m ./...")
CHECKS = {
 "C01": dict(level="exploration", sec="4/C01",
   technique="runtime monitor: garble+eval on generated/parsed circuits with monitor-driven permute bits, judged by an independent bit-sliced truth-table evaluator",
   text="Exploration: the real Garble/Eval/Compute run on thousands of generated circuits (all gate types, wire reuse, fan-out) with steered point-and-permute bits, all or sampled inputs and all key sizes; every output label is decoded and compared with an independent evaluator. Held-on-K-executions evidence, not a proof.",
   note="Trusts the harness's 20-line bit-sliced evaluator (refc) as the meaning of plain evaluation; input labels are picked by the monitor from Garbled.Wires."),
}
PENDING = {}
def main():
    props=[json.loads(l) for l in open('/verif/properties.jsonl')]
    checks=[]
    na=[]
    for p in props:
        i=p['id']
        if i in CHECKS:
            c=CHECKS[i]
            checks.append({
              "property_id": i,
              "quick_cmd": f"./run.sh {i} quick",
              "thorough_cmd": f"./run.sh {i} thorough",
              "evidence_file": f"/verif/evidence/{i}.json",
              "replay_cmd_template": "./bin/vcheck replay {path}",
              "engine": "vcheck",
              "level_claimed": {"category": c["level"], "text": c["text"], "design_ref": "DESIGN.md §"+c["sec"]},
              "level_note": c["note"],
              "technique": c["technique"],
            })
        else:
            na.append({"property_id": i, "reason": PENDING.get(i, "monitor designed (DESIGN.md §4) but not built yet in this revision; not claimed until its check runs clean")})
    m={
      "version": 1,
      "setup_cmd": "./setup.sh",
      "hooks": {
        "guard": "verif",
        "enable": "go build -tags verif (run.sh builds the harness, and with it /repo's packages, with -tags verif)",
        "baseline_off_cmd": BASE_OFF,
        "source_commits": HOOK_COMMITS,
        "add_only": True,
      },
      "engines": [{"name": "vcheck", "path": "/verif/harness", "serves_properties": sorted(CHECKS),
                   "kind_free_text": "Go runtime-monitoring harness: driver + worker processes running the real packages of /repo under generated workloads, with oracles over API values, transport transcripts, hook events and race-detector reports"}],
      "checks": checks,
      "notes": "Runtime monitoring and sanitizers only. run.sh rebuilds from /repo's working tree on every call. Known findings: /verif/known_findings.json.",
      "not_applicable": na,
    }
    json.dump(m, open('/verif/MANIFEST.json','w'), indent=1)
    print("checks:", len(checks), "not claimed:", len(na))
HOOK_COMMITS = []
if __name__ == "__main__":
    main()
