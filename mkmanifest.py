#!/usr/bin/env python3
"""Regenerates MANIFEST.json from the table below (kept valid at all times)."""
import json, sys
BASE_OFF = ("cd /repo && . /verif/env.sh && go build ./... && "
            "go test -json -vet=off -count=1 -timeout 25m ./...")
CHECKS = {
 "C01": dict(level="exploration", sec="4/C01",
   technique="runtime monitor: garble+eval on generated/parsed circuits with monitor-driven permute bits, judged by an independent bit-sliced truth-table evaluator",
   text="Exploration: the real Garble/Eval/Compute run on thousands of generated circuits (all gate types, wire reuse, fan-out) with steered point-and-permute bits, all or sampled inputs and all key sizes; every output label is decoded and compared with an independent evaluator. Held-on-K-executions evidence, not a proof.",
   note="Trusts the harness's 20-line bit-sliced evaluator (refc) as the meaning of plain evaluation; input labels are picked by the monitor from Garbled.Wires."),
 "C06": dict(level="exploration", sec="4/C06",
   technique="runtime monitor at the ot.OT / IKNP API boundary: sender wires vs receiver labels, monitor-chosen Delta, ideal base OT",
   text="Exploration: every OT implementation (RSA, CO, COT, ROT; semi-honest/malicious; shared/unshared) is run sender against receiver over three transports for boundary batch sizes, several batches per instance and fixed choice patterns; raw IKNP (label and packed-bit form) is run over an ideal base OT with Delta chosen by the monitor so that Delta_0=0/1 are both driven; CO helpers on four curves. Oracle is exact and per position.",
   note="Both parties run in one process; the ideal base OT under raw IKNP is harness code."),
 "C07": dict(level="exploration", sec="4/C07",
   technique="runtime monitor: builders called the two ways the code base calls them, compiled circuits evaluated bit-sliced (exhaustive operands for small widths) against math/big",
   text="Exploration with exhaustive sub-spaces: every builder x both targets x both call modes x all width pairs 1..5 (quick) / 1..8 (thorough) x five result widths with ALL operand values when they total <= 12 bits, plus widths 15..130 and every Karatsuba threshold with boundary/random operands. Known findings (subtractor sign fill, Goldschmidt inexactness) are keyed by call-site class so other failures still fail the check.",
   note="math/big is the specification; divisor 0 and out-of-range index excluded as the property says; Karatsuba limits below 8 are not driven (the code base never passes them)."),
 "C13": dict(level="exploration", sec="4/C13",
   technique="runtime monitor: generated argument shapes/values through IOArg.Parse/Set, Sizes/InputSizes, mpc.Result and IO.Split against an independent bit-level encoder",
   text="Exploration: generated compound/array/scalar argument shapes (widths 1..130, 0-length arrays, short literals) with boundary values in all spellings; bits compared with the harness's own encoder, non-interference by changing one member, size inference, decode/repeat/no-mutation of results.",
   note="The harness's encoder (little-endian two's complement per element, declaration order) is the specification; array literals are generated only in hex, the one spelling whose width is unambiguous."),
 "C14": dict(level="fault_enumeration", sec="4/C14",
   technique="runtime monitor: round trips of generated circuits; layout-aware mutation of valid files (all truncations, all single-bit flips for small files, field splicing) judged by a well-formedness checker; panic/hang detection",
   text="Fault enumeration on small files (every truncation point and every single-bit flip of files <= 260 bytes, every count/length field set to chosen values) and sampled on larger ones, for both parsers; plus round trips of generated and compiled circuits with typed/compound/long-named I/O. Oracle: error or well-formed circuit; panic or 90 s hang is a violation.",
   note="Files that declare a size above 10^6 are outside the property's precondition and skipped (counted). Well-formedness is exactly what the statement promises (defined-before-use, every wire assigned)."),
 "C15": dict(level="fault_enumeration", sec="4/C15",
   technique="fault injection in transit (TamperIO on the sender) over a fresh malicious-mode IKNP session per fault; correlation oracle; independent shadow receiver with its own carry-less multiplier in honest runs",
   text="Fault enumeration: in thorough every (column,row) single-bit flip of the 64-row payload matrix and of the 256-row check matrix (40960 sessions), every bit of seed/x/t0/t1, plus double/column/row/k-subset flips and COT/ROT-level faults for several n; quick samples the same space. Oracle: sender error or correlation intact for the receiver's original choices. Honest runs must not abort and must match an independently recomputed receiver.",
   note="Faults are bit flips in transit, not an adaptive adversary; the base OT is an ideal in-memory OT (harness code) so that the extension itself is what is under test."),
 "C18": dict(level="exploration", sec="4/C18",
   technique="runtime monitor over the round API: deterministic per-round randomness, encode/decode subsets, one OS process per round, foreign-session/curve objects, truncation sweeps and mutations with recover()",
   text="Exploration (truncation sweeps are exhaustive for the small encodings): protocol runs on four curves against crypto/sha256, all 31 restart subsets across cases with byte-identical transcripts, real process-per-round runs exchanging files, fixed encoded sizes, rejection of foreign session/curve objects, every truncation of the small encodings, mutations that must never panic a decoder or the consuming round.",
   note="crypto/sha256 is the reference; mutated-but-accepted messages are not required to be rejected (a flipped label is a well-formed message)."),
 "C20": dict(level="exploration", sec="4/C20",
   technique="runtime monitor at the vole/bmr API: both parties' return values recombined with math/big",
   text="Exploration: VOLE for boundary vector lengths (1..2000 across extension chunks), nine moduli incl. 2 and 2^256-189, boundary elements and values >= p, CO and ideal base OT, two transports, several Mul calls per instance; bmr.Fx/Fxk exhaustively over (a,b) and label patterns with CO and COT. Oracle: u-r == x*y mod p per position; r xor x_b == a*b / b*s.",
   note="math/big is the specification; both parties in one process."),
}
PENDING = {}
def main():
    props=[json.loads(l) for l in open('/verif/properties.jsonl')]
    checks=[]
    na=[]
    for p in props:
        i=p['id']
        if i in CHECKS:
            c=CHECKS[i]
            checks.append({
              "property_id": i,
              "quick_cmd": f"./run.sh {i} quick",
              "thorough_cmd": f"./run.sh {i} thorough",
              "evidence_file": f"/verif/evidence/{i}.json",
              "replay_cmd_template": "./bin/vcheck replay {path}",
              "engine": "vcheck",
              "level_claimed": {"category": c["level"], "text": c["text"], "design_ref": "DESIGN.md §"+c["sec"]},
              "level_note": c["note"],
              "technique": c["technique"],
            })
        else:
            na.append({"property_id": i, "reason": PENDING.get(i, "monitor designed (DESIGN.md §4) but not built yet in this revision; not claimed until its check runs clean")})
    m={
      "version": 1,
      "setup_cmd": "./setup.sh",
      "hooks": {
        "guard": "verif",
        "enable": "go build -tags verif (run.sh builds the harness, and with it /repo's packages, with -tags verif)",
        "baseline_off_cmd": BASE_OFF,
        "source_commits": HOOK_COMMITS,
        "add_only": True,
      },
      "engines": [{"name": "vcheck", "path": "/verif/harness", "serves_properties": sorted(CHECKS),
                   "kind_free_text": "Go runtime-monitoring harness: driver + worker processes running the real packages of /repo under generated workloads, with oracles over API values, transport transcripts, hook events and race-detector reports"}],
      "checks": checks,
      "notes": "Runtime monitoring and sanitizers only. run.sh rebuilds from /repo's working tree on every call. Known findings: /verif/known_findings.json.",
      "not_applicable": na,
    }
    json.dump(m, open('/verif/MANIFEST.json','w'), indent=1)
    print("checks:", len(checks), "not claimed:", len(na))
HOOK_COMMITS = []
if __name__ == "__main__":
    main()
