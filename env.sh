# Sourced by every script: pins the Go toolchain the baseline uses, offline.
TC=/root/go/pkg/mod/golang.org/toolchain@v0.0.1-go1.25.0.linux-amd64/bin
if [ -x "$TC/go" ]; then
  export PATH="$TC:$PATH" GOTOOLCHAIN=local
else
  export GOTOOLCHAIN=auto
fi
export GOFLAGS=-mod=mod GOPROXY=off
unset GOSUMDB
